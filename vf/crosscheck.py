"""Engine vs CPython cross-check (DESIGN 7.2).

For a method of Scores and a concrete input, the method body is executed symbolically in ground mode (arrays of the concrete
length, all values symbolic), the inputs are then *bound* to the concrete values, one path must be satisfiable, and the value of the
symbolic result under the model must equal what CPython/NumPy return for the real method on the same input.  A disagreement means the
engine or a primitive contract misrepresents Python/NumPy: it is an internal error of the checker (RuntimeError -> exit 3), never a
verdict about the repository.  Inputs are chosen dyadic so that real arithmetic and float arithmetic agree exactly.
"""
from fractions import Fraction

import numpy as np
from z3 import And, BoolVal, Int, IntVal, Real, RealVal, Solver, is_true, sat, simplify

from .common import mk_scores, new_exec, run_method
from .engine import FV, INF, NINF, Obj, Path, T, toI, toR


def _rv(x):
    fr = Fraction(float(x))
    return RealVal(f"{fr.numerator}/{fr.denominator}")


def _num(m, term):
    v = m.eval(term, model_completion=True)
    try:
        return float(v.as_fraction())
    except Exception:
        try:
            return float(v.as_long())
        except Exception:
            s = str(v)
            return float("inf") if s in ("oo", "+oo") else float("-inf") if s == "-oo" else float("nan")


def sym_value(m, v):
    """concrete numpy value of a symbolic result under model m"""
    if isinstance(v, Obj) and "matrix" in v.attrs:
        v = v.attrs["matrix"]
    if isinstance(v, FV):
        if v.nan is True or (v.nan is not False and is_true(m.eval(v.nan, model_completion=True))):
            return float("nan")
        return _num(m, toR(v.v))
    if isinstance(v, T):
        if not all(a.concrete() for a in v.axes):
            raise ValueError("symbolic axis in a ground result")
        shape = tuple(a.size for a in v.axes)
        out = np.zeros(shape)
        for idx in np.ndindex(*shape):
            out[idx] = sym_value(m, v.elem(*idx))
        return out
    if isinstance(v, (int, float)):
        return float(v)
    if v is INF:
        return float("inf")
    if v is NINF:
        return float("-inf")
    return _num(m, toR(v))


class _Sink:
    def __init__(self):
        self.notes, self.crosscheck = [], 0


def _job(job):
    """worker: job = (method, kwargs, cases, tol); cases carry 'args' (list of floats)"""
    from .framework import real_repo
    sa = real_repo()
    method, kw, cases, tol = job
    sink = _Sink()

    def real(case):
        try:
            s = sa.Scores(case["pos"], case["neg"], nb_easy_pos=case["ep"], nb_easy_neg=case["en"], score_class=case["sc"], equal_class=case["ec"])
            return getattr(s, method)(*case["args"], **kw)
        except Exception as e:        # noqa: BLE001
            return e
    try:
        n = crosscheck_scores(sink, method, cases, lambda c: ([float(a) for a in c["args"]], kw), real, tol=tol)
        return {"ok": n, "notes": sink.notes, "error": None}
    except RuntimeError as e:
        return {"ok": sink.crosscheck, "notes": sink.notes, "error": str(e)}


def run_crosscheck(chk, jobs):
    """jobs: list of (method, kwargs, cases, tol).  Agreement is counted in the evidence (engine_crosscheck_inputs); a disagreement
    makes the proof layer of this run untrustworthy: it is reported as undecided (never as a violation of the property)."""
    from .framework import parallel_map
    for job, res in zip(jobs, parallel_map(_job, jobs)):
        chk.crosscheck += res["ok"]
        for n in res["notes"]:
            if n not in chk.notes:
                chk.notes.append(n)
        if res["error"]:
            chk.notes.append(res["error"][:600])
            chk.undecided.append(f"{chk.pid}/engine-crosscheck[{job[0]},{job[1]}]: symbolic execution and CPython disagree on a concrete input (see notes)")


def crosscheck_scores(chk, method, cases, args_of, real_call, tol=1e-12):
    """cases: dicts with pos, neg, ep, en, sc, ec (+ what args_of needs).  args_of(case) -> (list of concrete python args, kwargs)."""
    n_ok = 0
    for case in cases:
        pos, neg = sorted(case["pos"]), sorted(case["neg"])
        ex = new_exec(ground=True)
        path = Path()
        me = mk_scores(ex, path, case["sc"], case["ec"], npos=len(pos), nneg=len(neg), easy=(case["ep"], case["en"]))
        args, kw = args_of(case)
        sargs = [Real(f"arg{k}") if isinstance(a, float) else a for k, a in enumerate(args)]
        try:
            outs = run_method(ex, "Scores", method, me, sargs, dict(kw), path=path)
        except Exception as e:
            chk.notes.append(f"engine cross-check skipped for {method}: {type(e).__name__}: {str(e)[:100]}")
            return n_ok
        bind = [a == _rv(v) for a, v in zip(me.attrs["pos"].items, pos)] + [a == _rv(v) for a, v in zip(me.attrs["neg"].items, neg)] + \
               [sa == _rv(a) for sa, a in zip(sargs, args) if isinstance(a, float)]
        # the adjacent-float primitive is only characterised by its contract: bind it to the machine's values on the inputs
        from .prims import nxt_dn, nxt_up
        for v in set(pos) | set(neg):
            bind.append(nxt_up(_rv(v)) == _rv(np.nextafter(v, np.inf)))
            bind.append(nxt_dn(_rv(v)) == _rv(np.nextafter(v, -np.inf)))
        sat_outs = []
        for o in outs:
            s = Solver()
            s.set("timeout", 20000)
            s.add(o.path.pc)
            s.add(bind)
            r = s.check()
            if r == sat:
                sat_outs.append((o, s.model()))
            elif str(r) == "unknown":
                sat_outs = None
                break
        if sat_outs is None:
            chk.notes.append(f"engine cross-check: solver gave up on a ground path of {method}")
            continue
        got_real = real_call(case)
        if len(sat_outs) != 1:
            raise RuntimeError(f"engine cross-check: {len(sat_outs)} satisfiable paths for the concrete input {case} of Scores.{method} (expected exactly 1)")
        o, m = sat_outs[0]
        if o.raised:
            if not isinstance(got_real, Exception):
                raise RuntimeError(f"engine cross-check: engine says Scores.{method} raises for {case}, CPython returned {got_real!r}")
            n_ok += 1
            continue
        if isinstance(got_real, Exception):
            raise RuntimeError(f"engine cross-check: CPython raised {got_real!r} for {case}, the engine returns a value")
        sym = sym_value(m, o.value)
        real = np.asarray(got_real.matrix if hasattr(got_real, "matrix") else got_real, dtype=float)
        if np.shape(sym) != real.shape or not np.allclose(sym, real, rtol=0, atol=tol, equal_nan=True):
            raise RuntimeError(f"engine cross-check: symbolic execution of Scores.{method} gives {np.asarray(sym).tolist()} but CPython gives {real.tolist()} for {case}")
        n_ok += 1
    chk.crosscheck += n_ok
    return n_ok
