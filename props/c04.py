"""C04 -- binary metrics obey their defining algebra, NaN rule and normal-approximation CIs.

Every function of metrics.py (and the binary ConfusionMatrix wrappers of cm.py, through the cm_class_metric decorator whose
wrapper body is executed symbolically) is run on a symbolic matrix of shape X+(2,2) (generic element x) and of shape (2,2);
results are reals with a NaN tag.  Post-conditions are the definitions of the property statement.
"""
import itertools

import numpy as np
from z3 import And, Array, BoolVal, If, Implies, Int, IntSort, Not, Or, Real, RealSort, RealVal

from vf import bounded as B
from vf import prims as P
from vf.common import new_exec, run_function, run_method
from vf.engine import FV, UF, Axis, Obj, Oblig, Path, T, is_sym, nan_of, toB, toI, toR
from vf.proof import prove

LEVEL = "proof"

RATES = {  # name: (numerator cells, denominator cells)   cells: a=tp(0,0) b=fn(0,1) c=fp(1,0) d=tn(1,1)
    "tpr": ("a", "ab"), "fnr": ("b", "ab"), "tnr": ("d", "cd"), "fpr": ("c", "cd"),
    "ppv": ("a", "ac"), "npv": ("d", "bd"), "topr": ("ac", "abcd"), "tonr": ("bd", "abcd"), "accuracy": ("ad", "abcd"),
}
COMPL = {"fdr": "ppv", "for_": "npv", "error_rate": "accuracy"}
ALIAS = {"tar": "tpr", "frr": "fnr", "trr": "tnr", "far": "fpr", "acceptance_rate": "topr", "rejection_rate": "tonr"}
BASIC = {"tp": "a", "fn": "b", "fp": "c", "tn": "d", "p": "ab", "n": "cd", "top": "ac", "ton": "bd", "pop": "abcd"}
CIS = {"tpr_ci": ("a", "ab"), "tnr_ci": ("d", "cd"), "fpr_ci": ("c", "cd"), "fnr_ci": ("b", "ab")}
CI_ALIAS = {"tar_ci": "tpr_ci", "frr_ci": "fnr_ci", "trr_ci": "tnr_ci", "far_ci": "fpr_ci"}


def mk_matrix(ex, path, shape):
    cells = {}
    if shape == "X":
        X = Axis("X", Int("Xsize"))
        x = Int("x")
        path.add(And(0 <= x, x < toI(X.size)))
        arrs = {k: Array("M_" + k, IntSort(), RealSort()) for k in "abcd"}
        for k in "abcd":
            cells[k] = arrs[k][x]
            path.add(cells[k] >= 0)
        pos = {(0, 0): "a", (0, 1): "b", (1, 0): "c", (1, 1): "d"}
        two = Axis("2", 2)
        m = T((X, two, Axis("2", 2)), lambda xx, i, j: P.sel([P.sel([arrs["a"][toI(xx)], arrs["b"][toI(xx)]], j), P.sel([arrs["c"][toI(xx)], arrs["d"][toI(xx)]], j)], i),
              prov="param:matrix")
        return m, cells, x
    for k in "abcd":
        cells[k] = Real("m_" + k)
        path.add(cells[k] >= 0)
    m = T((Axis("2", 2), Axis("2", 2)), lambda i, j: P.sel([P.sel([cells["a"], cells["b"]], j), P.sel([cells["c"], cells["d"]], j)], i), prov="param:matrix")
    return m, cells, None


def ssum(cells, ks):
    r = cells[ks[0]]
    for k in ks[1:]:
        r = r + cells[k]
    return r


def val_of(res, x, shape, *idx):
    """generic element of a result (scalar for the (2,2) input)"""
    if shape == "X":
        if not isinstance(res, T) or res.ndim != 1 + len(idx):
            return None
        return res.elem(x, *idx)
    if isinstance(res, T):
        if res.ndim != len(idx):
            return None
        return res.elem(*idx)
    return res if not idx else None


def build(sizes=None, only=None):
    obs = []
    if sizes is not None:
        return obs
    for shape in ("X", "scalar"):
        for via in ("metrics", "ConfusionMatrix"):
            obs += build_for(shape, via)
    return obs


def call(ex, path, via, name, m, kw=None):
    if via == "metrics":
        outs = run_function(ex, "metrics", name, [m], kw or {}, path=path.copy())
    else:
        cm = Obj("ConfusionMatrix", matrix=m, classes=P.from_list(ex, path, [1, 0]), binary=True)
        # the wrappers are decorated with cm_class_metric: its wrapper body is executed (engine.call_node)
        res = ex.call_method("ConfusionMatrix", name, cm, [], kw or {}, path.copy())
        return res, path
    live = [o for o in outs if not o.raised]
    if len(live) != 1 or len(outs) != 1:
        return None, path
    return live[0].value, live[0].path


def case_from_model(detail):
    """a quantifier-free model of a refuted obligation on the (2,2) matrix fixes the four cells (and alpha): the concrete input"""
    from fractions import Fraction
    import re
    cells = []
    for k in "abcd":
        v = detail.get("m_" + k)
        if v is None and ("M_" + k) in detail:
            # abstract-shape obligations: constant arrays K(Int, v) are usable, anything else is not turned into an input
            m_ = re.fullmatch(r"K\(Int, (-?[0-9/.]+)\)", str(detail["M_" + k]).strip())
            if not m_:
                return None
            v = m_.group(1)
        if v is None:
            v = "0"
        cells.append(float(Fraction(str(v).replace(" ", "").replace("(", "").replace(")", "").replace("-/", "-"))))
    al = detail.get("alpha")
    alphas = [0.05]
    if al is not None:
        try:
            a_ = float(Fraction(str(al)))
            if 0 < a_ < 1:
                alphas = [a_]
        except Exception:
            pass
    return {"matrix": [[cells[0], cells[1]], [cells[2], cells[3]]], "float": True, "alphas": alphas}


def build_for(shape, via):
    obs = []
    ex = new_exec()
    path = Path()
    m, cells, x = mk_matrix(ex, path, shape)
    tag = f"[{via},{shape}]"

    def ob(name, goal, hyps=None, kind="post"):
        meta = {"key": f"C04/{name}"}
        meta["case_from_model"] = case_from_model
        obs.append(Oblig(f"C04/{name}{tag}", list(hyps if hyps is not None else path.pc), goal, kind, ("C04",), meta))
    vals = {}
    names = list(BASIC) + list(RATES) + list(COMPL) + list(ALIAS)
    if via == "ConfusionMatrix":
        names = [n for n in names if n not in ("accuracy", "error_rate")] + ["class_accuracy", "class_error_rate"] if False else names
    for name in names:
        try:
            res, p2 = call(ex, path, via, name, m)
        except Exception as e:        # engine limitation or a changed body: the clause becomes undecided, not a verdict
            ob(f"{name}/executes", BoolVal(False), [], "post")
            obs[-1].meta["engine_error"] = f"{type(e).__name__}: {e}"
            continue
        v = val_of(res, x, shape)
        if v is None:
            ob(f"{name}/shape", BoolVal(False), [], "shape")
            continue
        ob(f"{name}/shape", BoolVal(True), [], "shape")
        if shape == "scalar":
            ob(f"{name}/scalar-in-scalar-out", BoolVal(not isinstance(res, T)), [], "shape")
        vals[name] = v
    hy = path.pc
    for name, ks in BASIC.items():
        if name in vals:
            ob(f"{name}/definition", And(nan_of(vals[name]) == False, toR(vals[name]) == ssum(cells, ks)) if isinstance(vals[name], FV) else toR(vals[name]) == ssum(cells, ks))
    if all(k in vals for k in ("p", "n", "top", "ton", "pop")):
        ob("counts/P+N=TOP+TON=POP", And(toR(vals["p"]) + toR(vals["n"]) == toR(vals["pop"]), toR(vals["top"]) + toR(vals["ton"]) == toR(vals["pop"])))
    for name, (nu, de) in RATES.items():
        if name not in vals:
            continue
        v = vals[name]
        num, den = ssum(cells, nu), ssum(cells, de)
        nan = toB(nan_of(v)) if is_sym(nan_of(v)) or isinstance(nan_of(v), bool) else nan_of(v)
        ob(f"{name}/nan-iff-denominator-zero", nan == (den == 0))
        ob(f"{name}/value", Implies(den != 0, toR(v) * den == num))
        ob(f"{name}/range", Implies(den != 0, And(0 <= toR(v), toR(v) <= 1)), hy + [Implies(den != 0, toR(v) * den == num)])
    for name, base in COMPL.items():
        if name in vals and base in vals:
            v, b = vals[name], vals[base]
            ob(f"{name}/complement-of-{base}", And(toB(nan_of(v)) == toB(nan_of(b)), Implies(Not(toB(nan_of(b))), toR(v) + toR(b) == 1)))
    for a_, b_ in (("tpr", "fnr"), ("tnr", "fpr"), ("topr", "tonr")):
        if a_ in vals and b_ in vals:
            va, vb = vals[a_], vals[b_]
            den = ssum(cells, RATES[a_][1])
            ob(f"{a_}+{b_}=1", Implies(den != 0, toR(va) + toR(vb) == 1),
               hy + [Implies(den != 0, toR(va) * den == ssum(cells, RATES[a_][0])), Implies(den != 0, toR(vb) * den == ssum(cells, RATES[b_][0]))])
    for al, tg in ALIAS.items():
        if al in vals and tg in vals:
            ob(f"alias/{al}={tg}", And(toB(nan_of(vals[al])) == toB(nan_of(vals[tg])), toR(vals[al]) == toR(vals[tg])))
    # confidence intervals
    alpha = Real("alpha")
    path.add(And(alpha > 0, alpha < 1))
    hy = path.pc
    sq = UF("sqrt", RealSort(), RealSort())
    civals = {}
    for name in list(CIS) + list(CI_ALIAS):
        try:
            res, p2 = call(ex, path, via, name, m, {"alpha": alpha})
        except Exception as e:
            ob(f"{name}/executes", BoolVal(False), [], "post")
            obs[-1].meta["engine_error"] = f"{type(e).__name__}: {e}"
            continue
        lo, hi = val_of(res, x, shape, 0), val_of(res, x, shape, 1)
        okshape = lo is not None and hi is not None and isinstance(res, T) and res.axes[-1].size == 2
        ob(f"{name}/shape-X+(2,)", BoolVal(bool(okshape)), [], "shape")
        if okshape:
            civals[name] = (lo, hi)
    z = P.PhiInv(1 - alpha / 2)       # isf(alpha/2) of the standard normal
    for name, (nu, de) in CIS.items():
        if name not in civals:
            continue
        lo, hi = civals[name]
        num, den = ssum(cells, nu), ssum(cells, de)
        p = num / den
        ob(f"{name}/nan-iff-nobs-zero", And(toB(nan_of(lo)) == (den == 0), toB(nan_of(hi)) == (den == 0)))
        half = z * sq(p * (1 - p) / den)
        ob(f"{name}/centre-and-half-width", Implies(den != 0, And(toR(lo) == p - half, toR(hi) == p + half)))
    for a_, b_ in (("tpr_ci", "fnr_ci"), ("tnr_ci", "fpr_ci")):
        if a_ in civals and b_ in civals:
            (lo1, hi1), (lo2, hi2) = civals[a_], civals[b_]
            den = ssum(cells, CIS[a_][1])
            pa, pb = ssum(cells, CIS[a_][0]) / den, ssum(cells, CIS[b_][0]) / den
            # mirror: needs p_b = 1 - p_a, hence p_b(1-p_b) = p_a(1-p_a) (the sqrt arguments coincide)
            hint = Implies(den != 0, pb * (1 - pb) / den == pa * (1 - pa) / den)
            ob(f"{a_}~{b_}/hint-variance-symmetric", hint, kind="hint")
            ob(f"{a_}~{b_}/mirrored-interval", Implies(den != 0, And(toR(lo2) == 1 - toR(hi1), toR(hi2) == 1 - toR(lo1))),
               hy + [hint, Implies(den != 0, pb == 1 - pa), Implies(den != 0, sq(pb * (1 - pb) / den) == sq(pa * (1 - pa) / den))])
            ob(f"{a_}~{b_}/hint-sqrt-congruence", Implies(den != 0, sq(pb * (1 - pb) / den) == sq(pa * (1 - pa) / den)), hy + [hint], "hint")
            ob(f"{a_}~{b_}/hint-complement", Implies(den != 0, pb == 1 - pa), kind="hint")
    for al, tg in CI_ALIAS.items():
        if al in civals and tg in civals:
            ob(f"alias/{al}={tg}", And(toR(civals[al][0]) == toR(civals[tg][0]), toR(civals[al][1]) == toR(civals[tg][1]),
                                         toB(nan_of(civals[al][0])) == toB(nan_of(civals[tg][0]))))
    # nesting in alpha: from the monotonicity of the normal quantile (assumed contract of scipy.stats.norm) and sqrt >= 0
    a1, a2, s_ = Real("alpha1"), Real("alpha2"), Real("s")
    ob("ci/nested-in-alpha(lemma over the isf contract)", Implies(And(0 < a1, a1 <= a2, a2 < 1, s_ >= 0),
                                                                  P.PhiInv(1 - a2 / 2) * s_ <= P.PhiInv(1 - a1 / 2) * s_),
       [phi_inv_monotone(1 - a2 / 2, 1 - a1 / 2), P.PhiInv(1 - a2 / 2) >= 0, P.PhiInv(1 - a1 / 2) >= 0], "lemma")
    for so in ex.obligs:
        so.id = f"C04/safety:{so.id}{tag}"
        so.props = ("C04",)
        obs.append(so)
    bad = [s for s in ex.stores if s[1] not in ("fresh",) and not s[1].startswith("view:fresh")]
    obs.append(Oblig(f"C04/frame-no-store-into-argument{tag}", [], BoolVal(not bad), "frame", ("C04", "C10"), {"stores": bad}))
    return obs


def phi_inv_monotone(u, v):
    """assumed contract of scipy.stats.norm.ppf: non-decreasing"""
    return Implies(u <= v, P.PhiInv(u) <= P.PhiInv(v))


# ----------------------------------------------------------------------------------------------------------------
# bounded layer

def oracle(case):
    from vf.framework import real_repo
    real_repo()
    import scipy.stats
    from score_analysis import ConfusionMatrix, metrics
    M = np.array(case["matrix"], dtype=float if case.get("float") else int)
    if "shape" in case:
        M = M.reshape(case["shape"])
    lead = M.shape[:-2]
    a, b, c, d = M[..., 0, 0], M[..., 0, 1], M[..., 1, 0], M[..., 1, 1]
    cells = {"a": a, "b": b, "c": c, "d": d}
    S = lambda ks: sum(cells[k] for k in ks)
    objs = [("metrics", lambda n, **kw: getattr(metrics, n)(M, **kw)), ("cm", lambda n, **kw: getattr(ConfusionMatrix(matrix=M, binary=True), n)(**kw))]
    for via, f in objs:
        for name, ks in BASIC.items():
            v = np.asarray(f(name))
            if v.shape != lead or not np.array_equal(v, S(ks)):
                return f"{via}.{name} = {v.tolist()} expected {np.asarray(S(ks)).tolist()} for {M.tolist()}"
        got = {}
        for name, (nu, de) in RATES.items():
            if via == "cm" and name in ("accuracy",):
                pass
            raw = f(name)
            v = np.asarray(raw, dtype=float)
            if v.shape != lead:
                return f"{via}.{name} has shape {v.shape}, expected {lead}"
            if lead == () and not isinstance(raw, (float, int)):
                return f"{via}.{name} of a (2,2) matrix is {type(raw).__name__}, not a plain scalar"
            num, den = np.asarray(S(nu), dtype=float), np.asarray(S(de), dtype=float)
            with np.errstate(all="ignore"):
                exp = np.where(den != 0, num / np.where(den != 0, den, 1), np.nan)
            if not np.array_equal(np.isnan(v), den == 0):
                return f"{via}.{name}: NaN locus {np.isnan(v).tolist()} but denominator==0 is {(den == 0).tolist()} for {M.tolist()}"
            ok = np.isnan(exp) | (np.abs(v - exp) <= 4 * np.spacing(np.abs(exp)))
            if not np.all(ok) or np.any((v < 0) | (v > 1)):
                return f"{via}.{name} = {v.tolist()} expected {exp.tolist()} for {M.tolist()}"
            got[name] = v
        for name, base in COMPL.items():
            v = np.asarray(f(name), dtype=float)
            if not np.array_equal(np.isnan(v), np.isnan(got[base])) or not np.all(np.isnan(v) | (np.abs(v + got[base] - 1) <= 4e-16)):
                return f"{via}.{name} + {base} != 1 for {M.tolist()}"
        for x_, y_ in (("tpr", "fnr"), ("tnr", "fpr"), ("topr", "tonr")):
            s_ = got[x_] + got[y_]
            if not np.all(np.isnan(s_) | (np.abs(s_ - 1) <= 4e-16)):
                return f"{via}: {x_}+{y_} = {s_.tolist()} for {M.tolist()}"
        for al, tg in ALIAS.items():
            if not np.array_equal(np.asarray(f(al), dtype=float), got[tg], equal_nan=True):
                return f"{via}.{al} != {tg} for {M.tolist()}"
        for alpha in case.get("alphas", [0.05]):
            cis = {}
            for name, (nu, de) in CIS.items():
                v = np.asarray(f(name, alpha=alpha), dtype=float)
                if v.shape != lead + (2,):
                    return f"{via}.{name} shape {v.shape}, expected {lead + (2,)}"
                num, den = np.asarray(S(nu), dtype=float), np.asarray(S(de), dtype=float)
                with np.errstate(all="ignore"):
                    p = num / den
                    half = scipy.stats.norm.isf(alpha / 2) * np.sqrt(p * (1 - p) / den)
                    exp = np.stack([p - half, p + half], axis=-1)
                nanexp = (den == 0)
                if not np.array_equal(np.isnan(v[..., 0]), nanexp) or not np.array_equal(np.isnan(v[..., 1]), nanexp):
                    return f"{via}.{name}: NaN locus wrong for {M.tolist()}"
                if not np.all(np.isnan(exp) | (np.abs(v - exp) <= 1e-12)):
                    return f"{via}.{name}(alpha={alpha}) = {v.tolist()} expected {exp.tolist()} for {M.tolist()}"
                cis[name] = v
            for x_, y_ in (("tpr_ci", "fnr_ci"), ("tnr_ci", "fpr_ci")):
                mir = 1 - cis[x_][..., ::-1]
                if not np.all(np.isnan(mir) & np.isnan(cis[y_]) | (np.abs(mir - cis[y_]) <= 1e-12)):
                    return f"{via}: {y_} is not the mirrored {x_} for {M.tolist()}"
            for al, tg in CI_ALIAS.items():
                if not np.array_equal(np.asarray(f(al, alpha=alpha), dtype=float), cis[tg], equal_nan=True):
                    return f"{via}.{al} != {tg}"
            case.setdefault("_ci", {})[alpha] = {k: v.tolist() for k, v in cis.items()}
        als = sorted(case.get("alphas", []))
        for a1, a2 in zip(als, als[1:]):
            for name in CIS:
                w1, w2 = np.asarray(case["_ci"][a1][name]), np.asarray(case["_ci"][a2][name])
                ok = np.isnan(w1[..., 0]) | ((w1[..., 0] <= w2[..., 0] + 1e-15) & (w2[..., 1] <= w1[..., 1] + 1e-15))
                if not np.all(ok):
                    return f"{via}.{name}: interval for alpha={a2} not nested in the one for alpha={a1} for {M.tolist()}"
        case.pop("_ci", None)
    return None


def replay(case):
    return oracle(case)


def eval_items(items):
    counts, viols = {"metrics-algebra": [0, 0]}, []
    for case in items:
        res = oracle(dict(case))
        counts["metrics-algebra"][0] += 1
        counts["metrics-algebra"][1] += 1
        if res:
            viols.append(("metrics-algebra", "C04/bounded/" + res.split(" ")[0].split(":")[0], res, B.jsonable(case)))
    return counts, viols, []


def bounded(chk):
    from vf.framework import run_bounded
    vals = [0, 1, 2, 5] if chk.tier == "quick" else [0, 1, 2, 3, 7]
    mats = [[[a, b], [c, d]] for a, b, c, d in itertools.product(vals, repeat=4)]
    items = []
    alphas = [0.01, 0.05, 0.3]
    for fl in (False, True):
        for m in mats:
            items.append({"matrix": m, "float": fl, "alphas": alphas})
        # stacked shapes: (K,), (0,), (2,0,..), (r,s), (r,s,t)
        arr = np.array(mats)
        items.append({"matrix": arr.tolist(), "float": fl, "alphas": alphas})
        items.append({"matrix": [], "shape": [0, 2, 2], "float": fl, "alphas": [0.05]})
        k = len(mats)
        for shp in ((4, k // 4), (2, 2, k // 4), (k // 16, 16), (2, k // 2)):
            items.append({"matrix": arr[: int(np.prod(shp))].reshape(shp + (2, 2)).tolist(), "float": fl, "alphas": [0.05, 0.2]})
    items.append({"matrix": [], "shape": [2, 0, 2, 2, 2], "float": False, "alphas": [0.05]})
    # machine arithmetic: large integer counts (int64 cubes / products wrap), fractional (normalised) float matrices
    big = [0, 3, 2**21 + 1, 3_000_000, 2**31 + 5, 10**12]
    bigm = [[[a, b], [c, d]] for a, b, c, d in itertools.product(big, repeat=4)]
    for m in bigm[:: (7 if chk.tier == "quick" else 1)]:
        items.append({"matrix": m, "float": False, "alphas": [0.05, 0.3]})
    items.append({"matrix": bigm[::5], "float": False, "alphas": [0.05]})
    for m in ([[3, 1], [2, 6]], [[0, 5], [7, 0]], [[40, 2], [1, 90]]):
        items.append({"matrix": m, "float": False, "alphas": [1e-17, 1e-12, 1e-9, 1e-4]})
    frac = [0.0, 0.125, 0.3, 0.75]
    for a, b, c, d in itertools.product(frac, repeat=4):
        items.append({"matrix": [[a, b], [c, d]], "float": True, "alphas": [0.05]})
    chk.bounded["bound"] = f"all 2x2 matrices with cells in {vals} (int and float), as single matrices and stacked with leading shapes (K,), (0,), (4,K/4), (2,2,K/4), (K/16,16), (2,K/2), (2,0,2); alphas {alphas} and down to 1e-17; both metrics.* and ConfusionMatrix.*; integer matrices with cells in {big} (int64 overflow of intermediate products) and float matrices with fractional cells {frac}"
    chk.bounded["rule"] = "enumerated; every matrix is a distinct case; non-trivial = not all-zero"
    chk.bounded["exhaustive"] = True
    run_bounded(chk, items, eval_items)
    chk.samples.append({"bounded-case": {"matrix": [[0, 2], [5, 1]], "alphas": alphas}})


def crosscheck(chk):
    """engine vs CPython (DESIGN 7.2): every metric of metrics.py executed symbolically on a (2,2) matrix of symbolic cells, the cells
    bound to concrete dyadic values; the model value (with its NaN tag) must equal what the real function returns"""
    from fractions import Fraction
    from z3 import Solver, sat
    from vf.crosscheck import sym_value
    from vf.framework import real_repo
    real_repo()
    from score_analysis import metrics
    mats = [[[0, 0], [0, 0]], [[3, 1], [2, 6]], [[0, 5], [0, 2]], [[4, 0], [0, 0]], [[0.5, 0.25], [0.125, 0.125]], [[7, 0], [3, 0]]]
    names = list(BASIC) + list(RATES) + list(COMPL) + list(ALIAS)
    n_ok = 0
    for name in names:
        ex = new_exec()
        path = Path()
        m, cells, _ = mk_matrix(ex, path, "scalar")
        try:
            res, p2 = call(ex, path, "metrics", name, m)
        except Exception as e:      # noqa: BLE001
            chk.notes.append(f"engine cross-check skipped for metrics.{name}: {type(e).__name__}")
            continue
        if res is None:
            continue
        for M in mats:
            sol = Solver()
            sol.set("timeout", 10000)
            sol.add(p2.pc)
            for k_, v_ in zip("abcd", (M[0][0], M[0][1], M[1][0], M[1][1])):
                fr = Fraction(v_)
                sol.add(cells[k_] == RealVal(f"{fr.numerator}/{fr.denominator}"))
            if sol.check() != sat:
                chk.notes.append(f"engine cross-check: no model for metrics.{name} on {M}")
                continue
            got = sym_value(sol.model(), res)
            with np.errstate(all="ignore"):
                real = float(getattr(metrics, name)(np.array(M, dtype=float)))
            if not ((np.isnan(got) and np.isnan(real)) or abs(got - real) <= 1e-12):
                chk.notes.append(f"engine cross-check: symbolic execution of metrics.{name} gives {got} but CPython gives {real} for {M}")
                chk.undecided.append(f"C04/engine-crosscheck[{name}]: symbolic execution and CPython disagree on a concrete input (see notes)")
                break
            n_ok += 1
    chk.crosscheck += n_ok


def run(chk):
    prove(chk, build, replay=replay)
    bounded(chk)
    crosscheck(chk)
