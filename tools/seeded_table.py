#!/usr/bin/env python3
"""tools/seeded_table.py -- regenerate seeded/README.md from seeded/*/meta.json"""
import glob
import json
import os

ROOT = os.path.dirname(os.path.dirname(os.path.abspath(__file__)))
rows = []
for f in sorted(glob.glob(os.path.join(ROOT, "seeded", "*", "meta.json"))):
    m = json.load(open(f))
    first = (m.get("description") or "").strip().split("\n")
    desc = " ".join(" ".join(first).split())[:260]
    chk = []
    for cid, c in m.get("checks", {}).items():
        kinds = c.get("violations_by_kind") or {}
        how = ", ".join(f"{v}x {k}" for k, v in sorted(kinds.items())) or "-"
        ob = f"{c.get('discharged')}/{c.get('obligations')} obligations discharged" if c.get("obligations") is not None else ""
        chk.append(f"{cid}: exit {c['exit']}, {c['violations']} VIOLATION lines ({how}); {ob}; {c.get('undecided_obligations', 0)} undecided")
    rows.append((m["name"], m["property"], "yes" if m.get("confirmed") else "NO", "yes" if m.get("detected") else "NO", "<br>".join(chk), desc))
out = ["# Seeded property-breaking changes", "",
       "Each directory holds `patch.diff` (against /repo's HEAD given in meta.json), `demo.py` (exits 0 on the clean tree, 1 with the patch; run from the",
       "repository root) and `meta.json` (written by `tools/confirm_seeded.py`). *confirmed* = the repository's own 384 tests pass with the patch and the",
       "demonstration behaves as stated. *detected* = the property's quick check, run against the patched copy, exits 1 with a `VIOLATION` line.",
       "Kinds: `bounded` = failing input found by the bounded layer and replayed on the real code; `ground-model` = a proof obligation was refuted and",
       "the solver's model replayed on the real code; `refuted` = a proof obligation was definitely refuted without a concrete input",
       "(`no-failing-input-found`). Names: `<property>-r<round>m<k>`; round 1 was produced against the pinned tree before the `fix:` commits, round 2",
       "against the repaired tree with round 1 listed as already known; `-hand*` were written while building. Each record was produced at the /repo",
       "commit named in its meta.json (`head`); every stored patch applies to the current HEAD (two were rebased after fix 2ad4e3f); `tools/reconfirm_all.sh`",
       "re-runs all of them.", "",
       "| name | property | confirmed | detected | verdict of the check(s) | change |", "|---|---|---|---|---|---|"]
for r in rows:
    out.append("| " + " | ".join(x.replace("|", "\\|") for x in r) + " |")
n_conf = sum(1 for r in rows if r[2] == "yes")
n_det = sum(1 for r in rows if r[3] == "yes" and r[2] == "yes")
out += ["", f"{len(rows)} changes, {n_conf} confirmed, {n_det} of the confirmed ones detected."]
open(os.path.join(ROOT, "seeded", "README.md"), "w").write("\n".join(out) + "\n")
print(out[-1])
