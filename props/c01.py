"""C01 -- confusion matrix at a threshold equals counting by the documented decision rule.

Contracts (sidecar; /repo untouched):
  Scores.__init__(pos, neg, is_sorted=False)   ensures  asc(self.pos), asc(self.neg), cnt(self.pos, v) = cnt(pos, v) for all v
  Scores.cm(threshold: X | scalar)             requires Inv(self);  ensures per configuration
        TP = predpos(pos,t)+easy_pos, FN = |pos|-predpos(pos,t), FP = predpos(neg,t), TN = |neg|-predpos(neg,t)+easy_neg,
        row sums independent of t, cells >= 0, shape X+(2,2), binary ConfusionMatrix
  pointwise_cm(labels, scores, threshold)      ensures cell (a,b) of (sample i, threshold x) is  [label_i is class a] and [rule predicts b]
  Scores.from_labels(labels, scores, ...)      ensures pos = exactly the scores labelled pos_label, neg = exactly the others (mask-selection
        contract); easy counts, configuration and is_sorted forwarded to the constructor
  lemma L2 (pointwise sum)                     sum over the samples of pointwise_cm = cm of from_labels(labels, scores): induction over
        the number of samples (see build_pointwise_sum)
The post-conditions are written from the property statement (README decision table) with the ghost functions
cnt_lt / cnt_le; they never mention a value computed by the code.
"""
import numpy as np
from z3 import And, BoolVal, If, Int, IntVal, Not, Or, Real, is_true

from vf import bounded as B
from vf import prims as P
from vf.common import label, mk_scores, new_exec, predpos, run_function, run_method, xtensor
from vf.engine import Obj, Path, T, same_size, toB, toI, toR
from vf.proof import case_from_model, prove

LEVEL = "proof"
PID = "C01"


def build_cm(sizes=None, pid="C01"):
    """cell-by-cell contract of Scores.cm against the documented decision rule.  pid != 'C01': the same obligations re-discharged inside
    another property's check (C02, C06 state their clauses on 'the metric as computed by the same object', i.e. on top of this contract)"""
    obs = []
    npos, nneg = sizes if sizes else (None, None)
    pre = "C01/cm/" if pid == "C01" else f"{pid}/callee-contract:Scores.cm/"
    for sc, ec in B.CONFIGS:
        for shape in ("X", "scalar"):
            ex = new_exec()
            path = Path()
            me = mk_scores(ex, path, sc, ec, npos, nneg)
            if shape == "X":
                thr, TH, X = xtensor(ex, "threshold")
                x = ex.new_int("x")
                path.add(And(0 <= x, x < toI(X.size)))
                t = TH[x]
            else:
                t = Real("threshold")
                thr = t
            outs = run_method(ex, "Scores", "cm", me, [thr], path=path)
            tag = f"[{sc},{ec},{shape}]"
            live = [o for o in outs if not o.raised]
            obs_here = []

            def ob(name, goal, p, kind="post"):
                o = ex.obligs.__class__  # noqa
                from vf.engine import Oblig
                obs_here.append(Oblig(f"{pre}{name}{tag}", p.pc, goal, kind, (pid,),
                                      {"build": ("c01", sizes), "case": lambda m, me=me, t=t, sc=sc, ec=ec: _case(m, me, t, sc, ec)} if pid == "C01" else {}))
            if len(outs) != 1 or not live:
                ob("single-non-raising-path", BoolVal(False), path)
            for o in live:
                ret = o.value
                okshape = isinstance(ret, Obj) and ret.cls == "ConfusionMatrix" and ret.attrs.get("binary") is True \
                    and isinstance(ret.attrs.get("matrix"), T) and \
                    [a.size for a in ret.attrs["matrix"].axes[-2:]] == [2, 2] and \
                    ret.attrs["matrix"].ndim == (3 if shape == "X" else 2) and \
                    (shape != "X" or same_size(ret.attrs["matrix"].axes[0].size, thr.axes[0].size))
                ob("shape-X+(2,2)-binary", BoolVal(bool(okshape)), o.path, "shape")
                if not okshape:
                    continue
                m = ret.attrs["matrix"]
                cell = (lambda a, b: m.elem(x, a, b)) if shape == "X" else (lambda a, b: m.elem(a, b))
                Pz, Nz = me.attrs["pos"], me.attrs["neg"]
                npz, nnz = toI(Pz.axes[0].size), toI(Nz.axes[0].size)
                ep, en = me.attrs["nb_easy_pos"], me.attrs["nb_easy_neg"]
                pp, pn = predpos(sc, ec, Pz, t), predpos(sc, ec, Nz, t)
                # the counting facts for the spec side (L1 instances at t) -- the same instances the searchsorted
                # contract produces; harmless duplicates
                if Pz.sym is not None:
                    o.path.add(P.cnt_char(Pz.sym[0], Pz.sym[1], t))
                    o.path.add(P.cnt_char(Nz.sym[0], Nz.sym[1], t))
                tp, fn, fp, tn = toI(cell(0, 0)), toI(cell(0, 1)), toI(cell(1, 0)), toI(cell(1, 1))
                ob("tp", tp == pp + ep, o.path)
                ob("fn", fn == npz - pp, o.path)
                ob("fp", fp == pn, o.path)
                ob("tn", tn == nnz - pn + en, o.path)
                ob("rowsum-pos", tp + fn == npz + ep, o.path)
                ob("rowsum-neg", fp + tn == nnz + en, o.path)
                ob("cells-nonneg", And(tp >= 0, fn >= 0, fp >= 0, tn >= 0), o.path)
            for so in ex.obligs:
                so.id = f"{pre}safety:{so.id}{tag}"
                so.props = (pid,)
                so.meta.update({"build": ("c01", sizes)} if pid == "C01" else {})
                obs_here.append(so)
            # frame: cm stores nothing into self / into arrays it did not create
            bad = [s for s in ex.stores if s[1] != "fresh" and not s[1].startswith("view:fresh")]
            from vf.engine import Oblig
            obs_here.append(Oblig(f"{pre}frame-no-store-to-self-or-args{tag}", [], BoolVal(not bad), "frame", (pid,), {"stores": bad}))
            obs += obs_here
    return obs


def build(sizes=None):
    """returns the list of obligations; sizes=None: unbounded symbolic arrays, (np, nn): ground arrays"""
    obs = build_cm(sizes)
    obs += build_init(sizes)
    obs += build_pointwise(sizes)
    if sizes is None:
        try:
            obs += build_from_labels()
            obs += build_pointwise_sum()
        except Exception as e:      # noqa: BLE001
            import os
            if os.environ.get("VERIF_DEBUG"):
                import traceback
                traceback.print_exc()
            from vf.engine import Oblig
            obs.append(Oblig("C01/from_labels/executes", [], BoolVal(False), "post", ("C01",), {"engine_error": f"{type(e).__name__}: {e}"}))
    return obs


def build_pointwise_sum():
    """Lemma L2: summing the pointwise confusion matrices over the samples gives the confusion matrix of
    Scores.from_labels(labels, scores) at the same threshold.  pointwise_cm, from_labels (mask selection + constructor with np.sort)
    and cm are executed on the same symbolic labels / scores; the sum over samples is the recursive ghost function
    S_ab(k+1) = S_ab(k) + [cell (a,b) of sample k].  Induction over the prefix length k with, per class c (label == / != pos_label):
      rank_c(k) = #{i<k : sample i is in c}                       cut invariant: rank_c(k) is the cut of the selection map sigma_c at k
      D<_c(k), D<=_c(k) = #{i<k : in c and score_i < / <= t}      count invariant: the same counts of the *selected* array up to rank_c(k)
    (counts of an unsorted array are the recursive ghost functions c<(j+1) = c<(j) + [sel_j < t]; the specification function cnt_lt of
    the named array at its full length is c<(m) by definition).  np.sort's contract (counts preserved) links them to the sorted arrays
    that cm searches."""
    from z3 import ForAll, Function, Implies, IntSort, Sum
    from vf.engine import Axis, Obj, Oblig
    obs = []
    for sc, ec in B.CONFIGS:
        tag = f"[{sc},{ec}]"
        ex = new_exec()
        path = Path()
        SCa = P.mk_array(ex, path, "scores_arg", None, prov="param:scores")
        from z3 import Array
        LB = Array("labels_arg", IntSort(), IntSort())
        n = toI(SCa.axes[0].size)
        labels = T((Axis("L", SCa.axes[0].size),), lambda k: LB[toI(k)], kind="int", prov="param:labels")
        pl, t = Int("pos_label"), Real("t")

        def ob(name, goal, hyps, kind="lemma", meta=None):
            obs.append(Oblig(f"C01/pointwise-sum/{name}{tag}", hyps, goal, kind, ("C01",), dict({"key": f"C01/pointwise-sum/{name}"}, **(meta or {}))))
        o1 = run_function(ex, "scores", "pointwise_cm", [labels, SCa, t], {"pos_label": pl, "score_class": sc, "equal_class": ec}, path=path)
        from vf.common import multi_path_meta
        if len(o1) != 1 or o1[0].raised:
            ob("pointwise_cm-single-path", BoolVal(False), [], "post", multi_path_meta(o1))
            continue
        pw = o1[0].value
        owner, fn = ex.find("Scores", "from_labels")
        try:
            sobj = ex.call_node(owner, fn, [labels, SCa], {"pos_label": pl, "score_class": sc, "equal_class": ec}, o1[0].path)
        except Exception as e:      # noqa: BLE001
            ob("from_labels-executes", BoolVal(False), [], "post", {"engine_error": f"{type(e).__name__}: {e}"})
            continue
        o2 = run_method(ex, "Scores", "cm", sobj, [t], path=o1[0].path)
        if len(o2) != 1 or o2[0].raised or not (isinstance(pw, T) and pw.ndim == 3):
            ob("cm-single-path", BoolVal(False), [], "post", multi_path_meta(o2) or {"engine_error": "shape of pointwise_cm not recognised"})
            continue
        CM = o2[0].value.attrs["matrix"]
        hy = list(o2[0].path.pc)
        k, K = Int("k!ind"), Int("K!ind")
        facts_final = []
        lem_ok = True
        cls = {}
        for nm, inclass in (("pos", lambda i: LB[i] == pl), ("neg", lambda i: LB[i] != pl)):
            srt = sobj.attrs[nm]                                   # the sorted array cm searches
            sel_t = getattr(srt, "sorted_of", None)
            sel = getattr(sel_t, "select_of", None) if sel_t is not None else None
            cnted = getattr(sel_t, "counted_as", None)
            if sel is None or cnted is None:
                ob(f"{nm}-is-the-sorted-mask-selection", BoolVal(False), [], "post", {"engine_error": "selection / sort witnesses not found"})
                lem_ok = False
                break
            _, mask, sigma, rho, m = sel
            Asel, _ = cnted
            rank = Function(f"rank_{nm}", IntSort(), IntSort())
            Dlt, Dle = Function(f"Dlt_{nm}", IntSort(), IntSort()), Function(f"Dle_{nm}", IntSort(), IntSort())
            clt, cle = Function(f"clt_{nm}", IntSort(), IntSort()), Function(f"cle_{nm}", IntSort(), IntSort())
            sk = lambda i: toR(SCa.elem(i))
            ax = [rank(0) == 0, Dlt(0) == 0, Dle(0) == 0, clt(0) == 0, cle(0) == 0,
                  ForAll([k], Implies(k >= 0, rank(k + 1) == rank(k) + If(inclass(k), 1, 0)), patterns=[rank(k + 1)]),
                  ForAll([k], Implies(k >= 0, Dlt(k + 1) == Dlt(k) + If(And(inclass(k), sk(k) < t), 1, 0)), patterns=[Dlt(k + 1)]),
                  ForAll([k], Implies(k >= 0, Dle(k + 1) == Dle(k) + If(And(inclass(k), sk(k) <= t), 1, 0)), patterns=[Dle(k + 1)]),
                  ForAll([k], Implies(k >= 0, clt(k + 1) == clt(k) + If(Asel[k] < t, 1, 0)), patterns=[clt(k + 1)]),
                  ForAll([k], Implies(k >= 0, cle(k + 1) == cle(k) + If(Asel[k] <= t, 1, 0)), patterns=[cle(k + 1)]),
                  # definition of the counting functions of the (unsorted) selected array at its full length
                  P.cnt_lt(Asel, m, t) == clt(m), P.cnt_le(Asel, m, t) == cle(m)]
            names = {str(sigma), str(rho), str(Asel), str(m)}
            rel = [h for h in hy if any(x_ in h.sexpr() for x_ in names)]
            maskdef_goal = toB(mask.elem(K)) == inclass(K)
            ob(f"{nm}: the selection mask is the class test", maskdef_goal, hy + [0 <= K, K < n])
            maskdef = ForAll([k], Implies(And(0 <= k, k < n), toB(mask.elem(k)) == inclass(k)), patterns=[LB[k]])
            inv = lambda kk, rank=rank, sigma=sigma, m=m, clt=clt, cle=cle, Dlt=Dlt, Dle=Dle: And(
                0 <= rank(kk), rank(kk) <= m, Or(rank(kk) == 0, sigma(rank(kk) - 1) < kk), Or(rank(kk) == m, sigma(rank(kk)) >= kk),
                clt(rank(kk)) == Dlt(kk), cle(rank(kk)) == Dle(kk))
            base_h = rel + ax + [maskdef, n >= 0]
            ob(f"{nm}: invariant holds at k=0", inv(0), base_h)
            # checked hints (instances of the selection contract at the current sample), then the step by cases
            h1 = Implies(inclass(K), And(0 <= rho(K), rho(K) < m, sigma(rho(K)) == K))
            h2 = Implies(And(0 <= rank(K), rank(K) < m), And(Asel[rank(K)] == sk(sigma(rank(K))), inclass(sigma(rank(K))), 0 <= sigma(rank(K)), sigma(rank(K)) < n))
            h3 = Implies(And(1 <= rank(K), rank(K) <= m), And(inclass(sigma(rank(K) - 1)), 0 <= sigma(rank(K) - 1)))
            ob(f"{nm}: step hints (selection contract at sample k)", And(h1, h2, h3), base_h + [0 <= K, K < n])
            for case_, cond in (("sample-k-in-class", inclass(K)), ("sample-k-not-in-class", Not(inclass(K)))):
                sig_only = [h for h in rel if str(sigma) in h.sexpr() and str(Asel) not in h.sexpr()]
                rk = rank(K)
                # instances of the recursive definitions at j = rank(k) (E-matching does not see clt(rank(k) + 1) in clt(rank(k+1)))
                inst_ax = [Implies(rk >= 0, clt(rk + 1) == clt(rk) + If(Asel[rk] < t, 1, 0)), Implies(rk >= 0, cle(rk + 1) == cle(rk) + If(Asel[rk] <= t, 1, 0)),
                           rank(K + 1) == rk + If(inclass(K), 1, 0), Dlt(K + 1) == Dlt(K) + If(And(inclass(K), sk(K) < t), 1, 0), Dle(K + 1) == Dle(K) + If(And(inclass(K), sk(K) <= t), 1, 0)]
                ob(f"{nm}: invariant is preserved from k to k+1/{case_}", inv(K + 1), sig_only + inst_ax + [n >= 0, 0 <= K, K < n, inv(K), cond, h1, h2, h3],
                   meta={"idx": [str(K), str(rank(K)), str(rank(K) - 1), str(rho(K))]})
            lem = ForAll([k], Implies(And(0 <= k, k <= n), inv(k)), patterns=[rank(k)])
            ob(f"{nm}: class size is rank(n) and the counts of the selection are the class counts", And(m == rank(n), P.cnt_lt(Asel, m, t) == Dlt(n), P.cnt_le(Asel, m, t) == Dle(n)),
               base_h + [lem, inv(n)])
            facts_final += [m == rank(n), P.cnt_lt(Asel, m, t) == Dlt(n), P.cnt_le(Asel, m, t) == Dle(n)]
            cls[nm] = (rank, Dlt, Dle, ax, inclass)
        if not lem_ok:
            continue
        # the sums over the samples
        for a, nm in ((0, "pos"), (1, "neg")):
            rank, Dlt, Dle, ax, inclass = cls[nm]
            predpos_k = {("pos", "pos"): lambda kk: rank(kk) - Dlt(kk), ("pos", "neg"): lambda kk: rank(kk) - Dle(kk),
                         ("neg", "pos"): lambda kk: Dle(kk), ("neg", "neg"): lambda kk: Dlt(kk)}[(sc, ec)]
            for b in (0, 1):
                S = Function(f"S_{a}{b}", IntSort(), IntSort())
                axS = [S(0) == 0, ForAll([k], Implies(k >= 0, S(k + 1) == S(k) + If(toB(pw.elem(k, a, b)), 1, 0)), patterns=[S(k + 1)])]
                want = (lambda kk: predpos_k(kk)) if b == 0 else (lambda kk: rank(kk) - predpos_k(kk))
                ob(f"cell-{a}{b}: partial sums follow the decision rule at k=0", S(0) == want(0), ax + axS)
                ob(f"cell-{a}{b}: partial sums follow the decision rule from k to k+1", S(K + 1) == want(K + 1), hy + ax + axS + [0 <= K, K < n, S(K) == want(K)])
                # the clause: sum over all samples = the cell of the confusion matrix of from_labels(labels, scores)
                allv = [P.cnt_char(*sobj.attrs[x_].sym, t) for x_ in ("pos", "neg") if sobj.attrs[x_].sym is not None]
                ob(f"cell-{a}{b}: sum over the samples equals cm of from_labels", ToRealI(S(n)) == toR(CM.elem(a, b)), hy + facts_final + allv + [S(n) == want(n)], "post")
        for so in ex.obligs:
            so.id = f"C01/pointwise-sum/safety:{so.id}#{len(obs)}{tag}"
            so.props = ("C01",)
            obs.append(so)
    return obs


def ToRealI(x):
    from z3 import ToReal
    return ToReal(x)


def build_from_labels():
    """Scores.from_labels: pos are exactly the scores labelled pos_label, neg exactly the others (soundness and completeness through
    the order-preserving contract of boolean-mask selection); easy counts, configuration and is_sorted are forwarded to the constructor"""
    from z3 import Array, Implies, IntSort
    from vf.engine import Axis, Obj, Oblig
    obs = []
    ex = new_exec()
    path = Path()
    sc = P.mk_array(ex, path, "scores_arg", None, prov="param:scores")
    LB = Array("labels_arg", IntSort(), IntSort())
    labels = T((Axis("L", sc.axes[0].size),), lambda k: LB[toI(k)], kind="int", prov="param:labels")
    pl = Int("pos_label")
    seen = {}

    def c_new(ex_, p_, **kw):
        seen.update(kw)
        return Obj("Scores", marker=True)
    ex.contracts[("Scores", "__new__")] = c_new
    owner, fn = ex.find("Scores", "from_labels")
    res = ex.call_node(owner, fn, [labels, sc], {"pos_label": pl, "nb_easy_pos": 3, "nb_easy_neg": 4, "score_class": "neg", "equal_class": "pos", "is_sorted": False}, path)
    okc = isinstance(res, Obj) and seen.get("nb_easy_pos") == 3 and seen.get("nb_easy_neg") == 4 and seen.get("score_class") == "neg" and seen.get("equal_class") == "pos" \
        and seen.get("is_sorted") is False
    obs.append(Oblig("C01/from_labels/forwards-easy-counts-configuration-and-is_sorted-to-the-constructor", [], BoolVal(bool(okc)), "post", ("C01",)))
    k = ex.new_int("k")
    n = toI(sc.axes[0].size)
    for nm, want_eq in (("pos", True), ("neg", False)):
        a = seen.get(nm)
        sel = getattr(a, "select_of", None) if isinstance(a, T) else None
        if sel is None:
            obs.append(Oblig(f"C01/from_labels/{nm}-is-a-selection-of-the-scores", [], BoolVal(False), "post", ("C01",), {"engine_error": "no selection witness"}))
            continue
        src, mask, sigma, rho, m = sel
        lab_ok = (LB[sigma(k)] == pl) if want_eq else (LB[sigma(k)] != pl)
        obs.append(Oblig(f"C01/from_labels/{nm}-holds-only-scores-labelled-{'pos_label' if want_eq else 'otherwise'}(soundness)", path.pc,
                         Implies(And(0 <= k, k < m), And(lab_ok, toR(a.elem(k)) == toR(sc.elem(sigma(k))))), "post", ("C01",)))
        lab_k = (LB[k] == pl) if want_eq else (LB[k] != pl)
        obs.append(Oblig(f"C01/from_labels/{nm}-holds-every-score-labelled-{'pos_label' if want_eq else 'otherwise'}(completeness)", path.pc,
                         Implies(And(0 <= k, k < n, lab_k), And(0 <= rho(k), rho(k) < m, toR(a.elem(rho(k))) == toR(sc.elem(k)))), "post", ("C01",)))
    for so in ex.obligs:
        so.id = f"C01/from_labels/safety:{so.id}#{len(obs)}"
        so.props = ("C01",)
        obs.append(so)
    return obs


def _val(m, v):
    from fractions import Fraction
    r = m.eval(v, model_completion=True)
    try:
        return Fraction(r.numerator_as_long(), r.denominator_as_long())
    except Exception:
        try:
            return Fraction(r.as_long())
        except Exception:
            return Fraction(str(r))


def _case(m, me, t, sc, ec):
    from vf.proof import rank_floats
    pos = [_val(m, a) for a in (me.attrs["pos"].items or [])]
    neg = [_val(m, a) for a in (me.attrs["neg"].items or [])]
    tv = _val(m, t)
    fm = rank_floats(pos + neg + [tv])
    return {"clause": "cm", "pos": [fm[v] for v in pos], "neg": [fm[v] for v in neg],
            "ep": int(_val(m, toI(me.attrs["nb_easy_pos"]))), "en": int(_val(m, toI(me.attrs["nb_easy_neg"]))),
            "sc": sc, "ec": ec, "t": [fm[tv]]}


def build_init(sizes=None):
    """Scores.__init__ : class invariant established + multiset preserved"""
    from vf.engine import Oblig
    obs = []
    n1, n2 = sizes if sizes else (None, None)
    for is_sorted in (False,):
        ex = new_exec()
        path = Path()
        pos = P.mk_array(ex, path, "pos_arg", n1, ascending=False, prov="param:pos")
        neg = P.mk_array(ex, path, "neg_arg", n2, ascending=False, prov="param:neg")
        ep, en = Int("ep_arg"), Int("en_arg")
        obj = Obj("Scores")
        outs = run_method(ex, "Scores", "__init__", obj, [pos, neg], {"nb_easy_pos": ep, "nb_easy_neg": en, "score_class": "neg", "equal_class": "pos", "is_sorted": is_sorted}, path=path)
        (o,) = outs
        so = o.env["self"]
        v = Real("v")
        for nm, arg in (("pos", pos), ("neg", neg)):
            a = so.attrs.get(nm)
            ok = isinstance(a, T) and a.ndim == 1
            obs.append(Oblig(f"C01/__init__/{nm}-is-1d-array", [], BoolVal(bool(ok)), "shape", ("C01",)))
            if not ok:
                continue
            if a.sym is not None:
                goal_sorted = P.sorted_formula(a.sym[0], a.sym[1])
            else:
                its = P.items_of(a)
                goal_sorted = And(*[toR(x) <= toR(y) for x, y in zip(its, its[1:])]) if its and len(its) > 1 else BoolVal(True)
            obs.append(Oblig(f"C01/__init__/{nm}-ascending(class-invariant)", o.path.pc, goal_sorted, "invariant", ("C01",)))
            obs.append(Oblig(f"C01/__init__/{nm}-multiset-preserved", o.path.pc,
                             And(a.facts["cnt"](v, True) == arg.facts["cnt"](v, True), a.facts["cnt"](v, False) == arg.facts["cnt"](v, False),
                                 toI(a.axes[0].size) == toI(arg.axes[0].size)) if "cnt" in a.facts else BoolVal(False), "post", ("C01",)))
        obs.append(Oblig("C01/__init__/attributes-stored", o.path.pc,
                         And(toI(so.attrs.get("nb_easy_pos", -1)) == ep, toI(so.attrs.get("nb_easy_neg", -1)) == en,
                             BoolVal(so.attrs.get("score_class") == label(ex, "neg")), BoolVal(so.attrs.get("equal_class") == label(ex, "pos"))), "post", ("C01",)))
    return obs


def build_pointwise(sizes=None):
    """pointwise_cm: per (sample, threshold) membership"""
    from vf.engine import Axis, Oblig
    from z3 import Array, IntSort, RealSort
    obs = []
    for sc, ec in B.CONFIGS:
        ex = new_exec()
        path = Path()
        S = Axis("S", Int("S"))
        path.add(toI(S.size) >= 0)
        SC = Array("sc_arr", IntSort(), RealSort())
        LB = Array("lb_arr", IntSort(), IntSort())
        scores = T((S,), lambda i: SC[toI(i)], kind="real", prov="param:scores")
        labels = T((S,), lambda i: LB[toI(i)], kind="int", prov="param:labels")
        thr, TH, X = xtensor(ex, "threshold")
        pl = Int("pos_label")
        outs = run_function(ex, "scores", "pointwise_cm", [labels, scores, thr], {"pos_label": pl, "score_class": sc, "equal_class": ec}, path=path)
        tag = f"[{sc},{ec}]"
        live = [o for o in outs if not o.raised]
        if len(live) != 1 or len(outs) != 1:
            from vf.common import multi_path_meta
            obs.append(Oblig(f"C01/pointwise_cm/single-path{tag}", [], BoolVal(False), "post", ("C01",), multi_path_meta(outs)))
            continue
        o = live[0]
        r = o.value
        ok = isinstance(r, T) and r.ndim == 4 and [a.size for a in r.axes[2:]] == [2, 2] and same_size(r.axes[0].size, S.size) and same_size(r.axes[1].size, X.size)
        obs.append(Oblig(f"C01/pointwise_cm/shape-scores+threshold+(2,2){tag}", [], BoolVal(bool(ok)), "shape", ("C01",)))
        if not ok:
            continue
        i, x = ex.new_int("i"), ex.new_int("x")
        hy = o.path.pc + [And(0 <= i, i < toI(S.size), 0 <= x, x < toI(X.size))]
        s, t = SC[i], TH[x]
        pred = {("pos", "pos"): s >= t, ("pos", "neg"): s > t, ("neg", "pos"): s <= t, ("neg", "neg"): s < t}[(sc, ec)]
        ispos = LB[i] == pl
        want = {(0, 0): And(ispos, pred), (0, 1): And(ispos, Not(pred)), (1, 0): And(Not(ispos), pred), (1, 1): And(Not(ispos), Not(pred))}
        for (a, b), w in want.items():
            obs.append(Oblig(f"C01/pointwise_cm/cell{a}{b}{tag}", hy, toB(r.elem(i, x, a, b)) == w, "post", ("C01",)))
        for so in ex.obligs:
            so.id = f"C01/pointwise_cm/safety:{so.id}{tag}"
            obs.append(so)
    return obs


# ----------------------------------------------------------------------------------------------------------------
# bounded stand-in + replay (executable rendering of the same clauses)

def oracle(case):
    """returns None if the real code agrees with the documented rule on this case, else a description"""
    from vf.framework import real_repo
    sa = real_repo()
    pos, neg, t = B.fl(case["pos"]), B.fl(case["neg"]), B.fl(case["t"])
    sc, ec, ep, en = case["sc"], case["ec"], case["ep"], case["en"]
    if case["clause"] == "cm":
        s = sa.Scores(pos, neg, nb_easy_pos=ep, nb_easy_neg=en, score_class=sc, equal_class=ec)
        got = np.asarray(s.cm(t).matrix)
        for k, tv in enumerate(t):
            exp = B.cm_oracle(pos, neg, ep, en, sc, ec, tv)
            if got[k].tolist() != exp:
                return f"cm({tv!r}) = {got[k].tolist()} but the decision rule gives {exp} (pos={pos.tolist()}, neg={neg.tolist()}, easy=({ep},{en}), {sc}/{ec})"
        g1 = s.cm(float(t[0])).matrix
        if np.asarray(g1).shape != (2, 2) or np.asarray(g1).tolist() != B.cm_oracle(pos, neg, ep, en, sc, ec, t[0]):
            return f"scalar cm({t[0]!r}) = {np.asarray(g1).tolist()}"
        return None
    if case["clause"] == "pointwise":
        from score_analysis.scores import pointwise_cm
        labels = np.array([1] * len(pos) + [0] * len(neg))
        scores = np.concatenate([pos, neg])
        perm = np.random.RandomState(case.get("perm", 0)).permutation(len(scores))
        labels, scores = labels[perm], scores[perm]
        pw = pointwise_cm(labels, scores, t, score_class=sc, equal_class=ec)
        if pw.shape != (len(scores), len(t), 2, 2):
            return f"pointwise_cm shape {pw.shape}"
        if len(scores) and not np.all(pw.sum(axis=(-1, -2)) == 1):
            return "pointwise_cm: a sample is not in exactly one cell"
        summed = pw.sum(axis=0)
        s = sa.Scores.from_labels(labels, scores, score_class=sc, equal_class=ec)
        got = np.asarray(s.cm(t).matrix)
        for k, tv in enumerate(t):
            exp = B.cm_oracle(pos, neg, 0, 0, sc, ec, tv)
            if summed[k].tolist() != exp or got[k].tolist() != exp:
                return f"pointwise sum {summed[k].tolist()} / from_labels cm {got[k].tolist()} vs rule {exp} at t={tv!r} (pos={pos.tolist()}, neg={neg.tolist()}, {sc}/{ec})"
        return None
    if case["clause"] == "dtype":
        # score arrays of narrow or unsigned dtypes: thresholds are float64 (at, one ulp around and between the scores)
        from score_analysis.scores import pointwise_cm
        dt = np.dtype(case["dtype"])
        p_, n_ = np.asarray(case["pos"], dtype=dt), np.asarray(case["neg"], dtype=dt)
        vals = sorted(set(float(v) for v in list(p_) + list(n_)))
        ts = sorted(set(sum(([v, float(np.nextafter(v, np.inf)), float(np.nextafter(v, -np.inf)), v + 0.3] for v in vals), [])))
        s = sa.Scores(p_, n_, nb_easy_pos=ep, nb_easy_neg=en, score_class=sc, equal_class=ec)
        got = np.asarray(s.cm(np.array(ts)).matrix)
        labels = np.array([1] * len(p_) + [0] * len(n_))
        scores = np.concatenate([p_, n_]) if len(p_) + len(n_) else np.zeros(0, dtype=dt)
        pw = pointwise_cm(labels, scores, np.array(ts), score_class=sc, equal_class=ec) if len(scores) else None
        for k, tv in enumerate(ts):
            exp = B.cm_oracle([float(v) for v in p_], [float(v) for v in n_], ep, en, sc, ec, tv)
            if got[k].tolist() != exp:
                return f"cm({tv!r}) = {got[k].tolist()} but the decision rule gives {exp} (pos={p_.tolist()}, neg={n_.tolist()}, dtype={dt}, easy=({ep},{en}), {sc}/{ec})"
            if pw is not None:
                exp0 = B.cm_oracle([float(v) for v in p_], [float(v) for v in n_], 0, 0, sc, ec, tv)
                if pw[:, k].sum(axis=0).tolist() != exp0:
                    return f"pointwise sum at {tv!r} = {pw[:, k].sum(axis=0).tolist()} but the decision rule gives {exp0} (pos={p_.tolist()}, neg={n_.tolist()}, dtype={dt}, {sc}/{ec})"
        return None
    if case["clause"] == "layout":
        # thresholds (and score arrays) of any shape and any memory layout: C / Fortran order, transposed and negative-stride views
        from score_analysis.scores import pointwise_cm
        labels = np.array([1] * len(pos) + [0] * len(neg))
        scores = np.concatenate([pos, neg])
        flat = np.resize(t, 12) if len(t) else np.zeros(12)
        variants = {"C(3,4)": flat.reshape(3, 4), "F(3,4)": np.asfortranarray(flat.reshape(3, 4)), "T-view(4,3)": flat.reshape(3, 4).T,
                    "reversed-view": flat[::-1], "permuted(2,3,2)": flat.reshape(2, 2, 3).transpose(0, 2, 1), "strided": np.repeat(flat, 2)[::2].reshape(4, 3)}
        s = sa.Scores(pos, neg, nb_easy_pos=ep, nb_easy_neg=en, score_class=sc, equal_class=ec)
        s0 = sa.Scores.from_labels(labels, scores, score_class=sc, equal_class=ec)
        for name, tv in variants.items():
            got = np.asarray(s.cm(tv).matrix)
            if got.shape != tv.shape + (2, 2):
                return f"cm shape {got.shape} for threshold layout {name}"
            pw = pointwise_cm(labels, scores, tv, score_class=sc, equal_class=ec)
            if pw.shape != scores.shape + tv.shape + (2, 2):
                return f"pointwise_cm shape {pw.shape} for threshold layout {name}"
            summed = pw.sum(axis=0)
            for idx in np.ndindex(tv.shape):
                exp = B.cm_oracle(pos, neg, ep, en, sc, ec, tv[idx])
                if got[idx].tolist() != exp:
                    return f"cm(threshold layout {name})[{idx}] = {got[idx].tolist()} but the decision rule at t={tv[idx]!r} gives {exp} (pos={pos.tolist()}, neg={neg.tolist()}, {sc}/{ec})"
                exp0 = B.cm_oracle(pos, neg, 0, 0, sc, ec, tv[idx])
                if summed[idx].tolist() != exp0 or np.asarray(s0.cm(tv).matrix)[idx].tolist() != exp0:
                    return f"pointwise sum (threshold layout {name})[{idx}] = {summed[idx].tolist()} but the decision rule at t={tv[idx]!r} gives {exp0} (pos={pos.tolist()}, neg={neg.tolist()}, {sc}/{ec})"
        # 2-d score / label arrays in Fortran order
        if len(scores) >= 2 and len(scores) % 2 == 0:
            sc2, lb2 = np.asfortranarray(scores.reshape(2, -1)), np.asfortranarray(labels.reshape(2, -1))
            pw = pointwise_cm(lb2, sc2, flat[:3], score_class=sc, equal_class=ec)
            if pw.shape != sc2.shape + (3, 2, 2):
                return f"pointwise_cm shape {pw.shape} for 2-d scores"
            for i in np.ndindex(sc2.shape):
                for k in range(3):
                    one = B.cm_oracle([sc2[i]] if lb2[i] == 1 else [], [sc2[i]] if lb2[i] != 1 else [], 0, 0, sc, ec, flat[k])
                    if pw[i][k].tolist() != one:
                        return f"pointwise_cm(2-d Fortran-order scores)[{i},{k}] = {pw[i][k].tolist()}, rule gives {one} (score {sc2[i]!r}, label {lb2[i]}, t={flat[k]!r}, {sc}/{ec})"
        return None
    raise ValueError(case["clause"])


def replay(case):
    return oracle(case)


def bounded(chk):
    maxn = 5 if chk.tier == "quick" else 7
    easy = [(0, 0), (2, 3)] if chk.tier == "quick" else [(0, 0), (1, 0), (0, 1), (2, 3)]
    chk.bounded["bound"] = f"all order types of pos+neg <= {maxn} scores (every tie pattern within and across classes), easy counts {easy}, 4 configurations, thresholds at / one ulp around / between every score and +-inf"
    chk.bounded["rule"] = "enumerated, not sampled; a case is non-trivial when it has at least one score (the threshold grid then separates the samples in more than one way)"
    chk.bounded["exhaustive"] = True
    for pos, neg in B.order_types(maxn):
        t = B.thresholds_for(pos + neg)
        for sc, ec in B.CONFIGS:
            for ep, en in easy:
                case = {"clause": "cm", "pos": pos, "neg": neg, "ep": ep, "en": en, "sc": sc, "ec": ec, "t": t.tolist()}
                r = oracle(case)
                chk.count("cm", 1, 1 if (pos or neg) else 0)
                if r:
                    chk.violation("cm", f"cm[{sc},{ec}]", r, B.jsonable(case))
            case = {"clause": "pointwise", "pos": pos, "neg": neg, "ep": 0, "en": 0, "sc": sc, "ec": ec, "t": t.tolist(), "perm": len(pos) * 7 + len(neg)}
            r = oracle(case)
            chk.count("pointwise", 1, 1 if (pos or neg) else 0)
            if r:
                chk.violation("pointwise", f"pointwise[{sc},{ec}]", r, B.jsonable(case))
    for pos, neg in B.order_types(3 if chk.tier == "quick" else 4):
        t = B.thresholds_for(pos + neg)
        for sc, ec in B.CONFIGS:
            case = {"clause": "layout", "pos": pos, "neg": neg, "ep": 1, "en": 2, "sc": sc, "ec": ec, "t": t.tolist()}
            r = oracle(case)
            chk.count("layout", 1, 1 if (pos or neg) else 0)
            if r:
                chk.violation("layout", f"layout[{sc},{ec}]", r, B.jsonable(case))
    for pos, neg in B.order_types(3):
        for dtn, f_ in (("float32", lambda v: v + 0.7), ("float16", lambda v: v + 0.7), ("uint8", lambda v: int(v) * 3), ("int16", lambda v: int(v) * 3 - 5)):
            for sc, ec in B.CONFIGS:
                case = {"clause": "dtype", "pos": [f_(v) for v in pos], "neg": [f_(v) for v in neg], "ep": 1, "en": 0, "sc": sc, "ec": ec, "t": [], "dtype": dtn}
                r = oracle(case)
                chk.count("dtype", 1, 1 if (pos or neg) else 0)
                if r:
                    chk.violation("dtype", f"dtype[{dtn},{sc},{ec}]", r, B.jsonable(case))
    chk.bounded["bound"] += "; float32 / float16 / uint8 / int16 score arrays (<= 3 scores) with float64 thresholds at, one ulp around and between the scores"
    chk.bounded["bound"] += "; threshold arrays of shape (3,4) / (4,3) / (2,3,2) / (12,) in C order, Fortran order, transposed, permuted, strided and reversed views (order types of <= 3 scores)"
    chk.samples.append({"bounded-case": {"pos": [1.0, 2.0, 2.0], "neg": [2.0], "easy": [2, 3], "config": ["neg", "pos"], "thresholds": "19 values: each score, +-1ulp, midpoints, +-inf"}})


def crosscheck(chk):
    """engine vs CPython on concrete inputs (DESIGN 7.2): cm and the rate methods"""
    from vf.crosscheck import run_crosscheck
    cases = []
    for pos, neg in list(B.order_types(3))[: (30 if chk.tier == "quick" else 200)]:
        for sc, ec in B.CONFIGS:
            for t in (0.5, 1.0, 2.0, 2.5):
                cases.append({"pos": pos, "neg": neg, "ep": 1, "en": 2, "sc": sc, "ec": ec, "args": [t]})
    run_crosscheck(chk, [(m, {}, cases[k::4], 1e-12) for m in ("cm", "tpr", "fpr", "topr") for k in range(4)])


def run(chk):
    prove(chk, build, ground_sizes=[(0, 0), (1, 0), (0, 1), (1, 1), (2, 1), (1, 2)], replay=replay)
    bounded(chk)
    crosscheck(chk)
    chk.extra["explanation"] = "cell-by-cell post-condition of Scores.cm, Scores.__init__ and pointwise_cm discharged by z3 for arrays of unbounded symbolic length; bounded exhaustive enumeration as stand-in for float order types and for the pointwise-sum lemma"
