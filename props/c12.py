"""C12 -- group labels stay attached to their scores; groups partition the data.

GroupScores is executed symbolically (score arrays and group-label arrays of unbounded length; labels are integer-coded, the
group_names list is concrete):
  __init__     through super().__init__(is_sorted=True) and the joint re-ordering: self.pos = pos[pi], self.pos_groups =
               pos_groups[pi] with the *same* argsort permutation pi (and likewise for the negatives); class invariant (ascending) at
               the end of the outermost constructor; names and order of group_names kept
  __getitem__  self[g] holds exactly the scores labelled g (soundness and completeness through the order-preserving contract of
               boolean-mask selection), the is_sorted=True constructor site owes ascending arrays (sub-sequence of an ascending array),
               flags copied, no easy samples, ValueError for unknown groups, cache returns the same object
  group_cm     is the stack over group_names of self[g].cm(threshold) (structural dataflow); groupwise(metric) likewise
  swap         exchanges the classes together with their label arrays, flips both flags
  bootstrap    None / by_label x replacement / single_pass: the sample's labels are the source labels at the *same* index array as
               its scores; group_names passed on; is_sorted flag only for single pass
  by_group     stratified by group (modular: against the __getitem__ contract proved above and the index-range contract of
               Scores._sample_indices proved in C11): every (score, label) pair of the sample is a pair of the source with that label,
               each group keeps its total size, flags and group_names kept
  partition    group_cm(t) and cm(t) are both executed (mask selection, constructor, searchsorted for every group): for labels drawn
               from group_names the four cells summed over the groups equal the overall cells, at every threshold and in every
               configuration.  Lemma L7 by induction over the prefix length k (base and step are obligations, the induction principle is
               applied by the generator): with rank_g(k) = #{i < k : label_i = g} (recursive ghost function) (A) sum_g rank_g(k) = k and
               (B) rank_g(k) is the cut position of the selection map sigma_g at k; hence count_g(t) = rank_g(count(t)).
Default group_names (np.unique of the labels): bounded layer.  The concrete names of the proof are deliberately not in sorted order
(an iteration over np.unique(self.groups) instead of self.groups then fails the structural dataflow obligations).
"""
import os

import numpy as np
from z3 import And, Array, BoolVal, Implies, Int, IntSort, Not, Or, Real, RealSort

from vf import bounded as B
from vf import prims as P
from vf.common import multi_path_meta, label, new_exec, run_function, run_method
from vf.engine import Axis, Obj, Oblig, Path, T, same_size, toB, toI, toR
from vf.proof import prove

LEVEL = "proof"
GROUPS = [2, 0, 1]          # deliberately not in sorted order: the names keep the order they were given in


def sym_args(ex, path, sorted_=False):
    pos = P.mk_array(ex, path, "pos_arg", None, ascending=sorted_, prov="param:pos")
    neg = P.mk_array(ex, path, "neg_arg", None, ascending=sorted_, prov="param:neg")
    PG, NG = Array("pos_groups_arg", IntSort(), IntSort()), Array("neg_groups_arg", IntSort(), IntSort())
    pg = T((Axis("pg", pos.axes[0].size),), lambda k: PG[toI(k)], kind="int", prov="param:pos_groups")
    ng = T((Axis("ng", neg.axes[0].size),), lambda k: NG[toI(k)], kind="int", prov="param:neg_groups")
    return pos, neg, pg, ng


def mk_group_scores(ex, path, sc="pos", ec="pos"):
    """symbolic GroupScores satisfying its invariant (ascending scores, label arrays of matching length)"""
    pos, neg, pg, ng = sym_args(ex, path, sorted_=True)
    return Obj("GroupScores", pos=pos.with_(prov="attr:pos"), neg=neg.with_(prov="attr:neg"), pos_groups=pg.with_(prov="attr:pos_groups"),
               neg_groups=ng.with_(prov="attr:neg_groups"), nb_easy_pos=0, nb_easy_neg=0, score_class=label(ex, sc), equal_class=label(ex, ec),
               groups=P.from_list(ex, path, list(GROUPS)), _grouped_scores={})


def build(sizes=None, only=None, part=None):
    obs = []
    if sizes is not None:
        return obs
    for fn in (build_init, build_getitem, build_group_cm, build_partition, build_swap, build_bootstrap, build_bootstrap_by_group):
        if part is not None and part != fn.__name__[6:]:
            continue
        try:
            obs += fn()
        except Exception as e:
            if os.environ.get("VERIF_DEBUG"):
                import traceback
                traceback.print_exc()
            obs.append(Oblig(f"C12/{fn.__name__[6:]}/executes", [], BoolVal(False), "post", ("C12",), {"engine_error": f"{type(e).__name__}: {e}"}))
    return obs


PARTS = ["init", "getitem", "group_cm", "partition", "swap", "bootstrap", "bootstrap_by_group"]


def build_init():
    obs = []
    for is_sorted in (False, True):
        ex = new_exec()
        path = Path()
        pos, neg, pg, ng = sym_args(ex, path, sorted_=is_sorted)
        obj = Obj("GroupScores")
        outs = run_method(ex, "GroupScores", "__init__", obj, [pos, neg], {"pos_groups": pg, "neg_groups": ng, "score_class": "neg", "equal_class": "pos",
                                                                       "group_names": list(GROUPS), "is_sorted": is_sorted}, path=path)
        tag = f"[is_sorted={is_sorted}]"

        def ob(name, goal, hyps, kind="post", meta=None):
            obs.append(Oblig(f"C12/__init__/{name}{tag}", hyps, goal, kind, ("C12",), dict({"key": f"C12/__init__/{name}"}, **(meta or {}))))
        ob("single-path", BoolVal(len(outs) == 1 and not outs[0].raised), [], "post", multi_path_meta(outs))
        if len(outs) != 1 or outs[0].raised:
            continue
        o = outs[0]
        so, hy = o.env["self"], o.path.pc
        k, i, j = ex.new_int("k"), ex.new_int("i"), ex.new_int("j")
        for nm, src, gsrc in (("pos", pos, pg), ("neg", neg, ng)):
            a, g = so.attrs.get(nm), so.attrs.get(nm + "_groups")
            ok = isinstance(a, T) and isinstance(g, T) and a.ndim == 1 and g.ndim == 1
            ob(f"{nm}-arrays-present", BoolVal(bool(ok)), [], "shape")
            if not ok:
                continue
            n = toI(src.axes[0].size)
            ob(f"{nm}-lengths-preserved", And(toI(a.axes[0].size) == n, toI(g.axes[0].size) == n), hy)
            ob(f"{nm}-ascending(class-invariant)", Implies(And(0 <= i, i <= j, j < n), toR(a.elem(i)) <= toR(a.elem(j))), hy, "invariant")
            if is_sorted:
                ob(f"{nm}-label-travels-with-its-score", And(toR(a.elem(k)) == toR(src.elem(k)), toI(g.elem(k)) == toI(gsrc.elem(k))), hy + [0 <= k, k < n])
            else:
                # the argsort call on this class's scores (whatever the local variable is called)
                calls = [c_ for c_ in ex.__dict__.get("argsort_calls", []) if c_["of"] is src]
                if len(calls) != 1:
                    ob(f"{nm}-reordered-by-an-argsort-permutation", BoolVal(False), [], "post", {"engine_error": f"{len(calls)} argsort calls on the {nm} scores"})
                    continue
                pi, inv = calls[0]["pi"], calls[0]["inv"]
                ob(f"{nm}-label-travels-with-its-score", And(0 <= pi(k), pi(k) < n, toR(a.elem(k)) == toR(src.elem(pi(k))), toI(g.elem(k)) == toI(gsrc.elem(pi(k)))), hy + [0 <= k, k < n])
                ob(f"{nm}-every-pair-is-kept(permutation)", And(0 <= inv(k), inv(k) < n, toR(a.elem(inv(k))) == toR(src.elem(k)), toI(g.elem(inv(k))) == toI(gsrc.elem(k))), hy + [0 <= k, k < n])
        gr = so.attrs.get("groups")
        ob("group_names-kept-in-order", BoolVal(isinstance(gr, T) and P.items_of(gr) == list(GROUPS)), [], "post")
        ob("flags-and-no-easy-samples", BoolVal(so.attrs.get("score_class") == label(ex, "neg") and so.attrs.get("equal_class") == label(ex, "pos")
                                              and so.attrs.get("nb_easy_pos") == 0 and so.attrs.get("nb_easy_neg") == 0 and so.attrs.get("_grouped_scores") == {}), [], "post")
        for s_ in ex.obligs:
            s_.id = f"C12/__init__/safety:{s_.id}#{len(obs)}{tag}"
            s_.props = ("C12",)
            obs.append(s_)
    return obs


def build_getitem():
    obs = []
    for sc, ec in (("pos", "neg"), ("neg", "pos")):
        ex = new_exec()
        path = Path()
        me = mk_group_scores(ex, path, sc, ec)
        g = GROUPS[1]
        outs = run_method(ex, "GroupScores", "__getitem__", me, [g], path=path)
        tag = f"[{sc},{ec}]"

        def ob(name, goal, hyps, kind="post", meta=None):
            obs.append(Oblig(f"C12/__getitem__/{name}{tag}", hyps, goal, kind, ("C12",), dict({"key": f"C12/__getitem__/{name}"}, **(meta or {}))))
        ob("single-path", BoolVal(len(outs) == 1 and not outs[0].raised), [], "post", multi_path_meta(outs))
        if len(outs) != 1 or outs[0].raised:
            continue
        o = outs[0]
        r, hy = o.value, o.path.pc
        ok = isinstance(r, Obj) and r.cls == "Scores" and isinstance(r.attrs.get("pos"), T) and isinstance(r.attrs.get("neg"), T)
        ob("returns-Scores", BoolVal(bool(ok)), [], "shape")
        if not ok:
            continue
        ob("flags-copied-no-easy-samples", BoolVal(r.attrs["score_class"] == label(ex, sc) and r.attrs["equal_class"] == label(ex, ec) and r.attrs["nb_easy_pos"] == 0 and r.attrs["nb_easy_neg"] == 0), [], "post")
        i, j, k = ex.new_int("i"), ex.new_int("j"), ex.new_int("k")
        for nm in ("pos", "neg"):
            a = r.attrs[nm]
            sel = getattr(a, "select_of", None)
            if sel is None:
                ob(f"{nm}-is-a-mask-selection", BoolVal(False), [], "post", {"engine_error": "selection witness missing"})
                continue
            src, mask, sigma, rho, m = sel
            gsrc = me.attrs[nm + "_groups"]
            n = toI(src.axes[0].size)
            ob(f"{nm}-selected-from-the-same-class", BoolVal(src is me.attrs[nm] or getattr(src, "sym", None) == getattr(me.attrs[nm], "sym", 0)), [], "post")
            ob(f"{nm}-soundness: every selected score carries the label", Implies(And(0 <= k, k < m), And(0 <= sigma(k), sigma(k) < n, toI(gsrc.elem(sigma(k))) == g, toR(a.elem(k)) == toR(src.elem(sigma(k))))), hy)
            ob(f"{nm}-completeness: every score with the label is selected", Implies(And(0 <= k, k < n, toI(gsrc.elem(k)) == g), And(0 <= rho(k), rho(k) < m, toR(a.elem(rho(k))) == toR(src.elem(k)))), hy)
            ob(f"{nm}-constructor-site-is_sorted=True-owes-ascending", Implies(And(0 <= i, i <= j, j < m), toR(a.elem(i)) <= toR(a.elem(j))), hy, "precondition")
        ob("cached-under-the-group-key", BoolVal(me.attrs["_grouped_scores"].get(g) is r), [], "post")
        # second call returns the cached object
        outs2 = run_method(ex, "GroupScores", "__getitem__", me, [g], path=Path(o.path.entries))
        ob("second-call-returns-the-cached-object", BoolVal(len(outs2) == 1 and outs2[0].value is r), [], "post")
        outs3 = run_method(ex, "GroupScores", "__getitem__", me, [99], path=Path(o.path.entries))
        ob("unknown-group-raises-ValueError", BoolVal(bool(outs3) and all(x.raised and "ValueError" in str(x.value.exc) for x in outs3)), [], "post")
    return obs


def build_group_cm():
    obs = []
    ex_calls = []

    def c_getitem(ex, path, self_, group):
        ex_calls.append(("getitem", group))
        return Obj("Scores", __group__=group)

    def c_cm(ex, path, self_, threshold):
        ex_calls.append(("cm", self_.attrs.get("__group__"), threshold))
        g = self_.attrs.get("__group__")
        m = T((Axis("2", 2), Axis("2", 2)), lambda a, b, g=g: Real(f"cm_g{g}_{a}{b}"), prov="fresh")
        return Obj("ConfusionMatrix", matrix=m, classes=None, binary=True)
    ex = new_exec(contracts={("GroupScores", "__getitem__"): c_getitem, ("Scores", "cm"): c_cm})
    path = Path()
    me = mk_group_scores(ex, path)
    t = Real("t")
    outs = run_method(ex, "GroupScores", "group_cm", me, [t], path=path)
    ok = len(outs) == 1 and not outs[0].raised
    obs.append(Oblig("C12/group_cm/single-path", [], BoolVal(ok), "post", ("C12",), multi_path_meta(outs)))
    if ok:
        r = outs[0].value
        okr = isinstance(r, Obj) and r.cls == "ConfusionMatrix" and r.attrs.get("binary") is True and isinstance(r.attrs.get("matrix"), T) and \
            [a.size for a in r.attrs["matrix"].axes] == [len(GROUPS), 2, 2]
        obs.append(Oblig("C12/group_cm/shape-(G,2,2)-binary", [], BoolVal(bool(okr)), "shape", ("C12",)))
        want = [("getitem", g) for g in GROUPS]
        got_items = [c for c in ex_calls if c[0] == "getitem"]
        got_cm = [c for c in ex_calls if c[0] == "cm"]
        obs.append(Oblig("C12/group_cm/indexes-self-by-each-group-name-in-order", [], BoolVal(got_items == want), "structural", ("C12",)))
        obs.append(Oblig("C12/group_cm/calls-cm-of-each-group-at-the-given-threshold", [], BoolVal([c[1] for c in got_cm] == list(GROUPS) and all(c[2] is t for c in got_cm)), "structural", ("C12",)))
        if okr:
            m = r.attrs["matrix"]
            goal = And(*[toR(m.elem(gi, a, b)) == Real(f"cm_g{g}_{a}{b}") for gi, g in enumerate(GROUPS) for a in (0, 1) for b in (0, 1)])
            obs.append(Oblig("C12/group_cm/row-g-is-the-cm-of-self[g]", outs[0].path.pc, goal, "post", ("C12",)))
    # groupwise(metric)
    calls2 = []
    ex2 = new_exec(contracts={("GroupScores", "__getitem__"): lambda ex_, p_, s_, g: Obj("Scores", __group__=g)})
    path2 = Path()
    me2 = mk_group_scores(ex2, path2)
    metric = ("pyfunc", lambda ex_, p_, o, **kw: (calls2.append((o.attrs.get("__group__"), kw)), Real(f"metric_g{o.attrs.get('__group__')}"))[1])
    try:
        gw = ex2.apply(("func", "group_scores", "groupwise"), [metric], {}, path2)
        res = ex2.apply(gw, [me2], {"threshold": 7}, path2)
        ok2 = isinstance(res, T) and res.ndim == 1 and res.axes[0].size == len(GROUPS)
        obs.append(Oblig("C12/groupwise/shape-(G,)", [], BoolVal(bool(ok2)), "shape", ("C12",)))
        obs.append(Oblig("C12/groupwise/metric-applied-to-each-group-in-order-with-kwargs", [], BoolVal([c[0] for c in calls2] == list(GROUPS) and all(c[1] == {"threshold": 7} for c in calls2)), "structural", ("C12",)))
        if ok2:
            obs.append(Oblig("C12/groupwise/entry-g-is-metric(s[g])", path2.pc, And(*[toR(res.elem(gi)) == Real(f"metric_g{g}") for gi, g in enumerate(GROUPS)]), "post", ("C12",)))
    except Exception as e:
        obs.append(Oblig("C12/groupwise/executes", [], BoolVal(False), "post", ("C12",), {"engine_error": f"{type(e).__name__}: {e}"}))
    return obs


def build_swap():
    obs = []
    for sc, ec in (("pos", "pos"), ("neg", "pos")):
        ex = new_exec()
        path = Path()
        me = mk_group_scores(ex, path, sc, ec)
        outs = run_method(ex, "GroupScores", "swap", me, [], path=path)
        tag = f"[{sc},{ec}]"
        ok = len(outs) == 1 and not outs[0].raised and isinstance(outs[0].value, Obj) and outs[0].value.cls == "GroupScores"
        obs.append(Oblig(f"C12/swap/returns-GroupScores{tag}", [], BoolVal(bool(ok)), "shape", ("C12",)))
        if not ok:
            continue
        w, hy = outs[0].value, outs[0].path.pc
        k = ex.new_int("k")
        flip = {"pos": "neg", "neg": "pos"}
        obs.append(Oblig(f"C12/swap/flags-flipped{tag}", [], BoolVal(w.attrs["score_class"] == label(ex, flip[sc]) and w.attrs["equal_class"] == label(ex, flip[ec])), "post", ("C12",)))
        for a, b in (("pos", "neg"), ("neg", "pos")):
            n = toI(me.attrs[b].axes[0].size)
            goal = And(toI(w.attrs[a].axes[0].size) == n, Implies(And(0 <= k, k < n), And(toR(w.attrs[a].elem(k)) == toR(me.attrs[b].elem(k)),
                                                                                          toI(w.attrs[a + "_groups"].elem(k)) == toI(me.attrs[b + "_groups"].elem(k)))))
            obs.append(Oblig(f"C12/swap/{a}-of-swapped-is-{b}-with-its-labels{tag}", hy, goal, "post", ("C12",)))
        i, j = ex.new_int("i"), ex.new_int("j")
        for a in ("pos", "neg"):
            n = toI(w.attrs[a].axes[0].size)
            obs.append(Oblig(f"C12/swap/constructor-site-is_sorted=True-owes-ascending-{a}{tag}", hy, Implies(And(0 <= i, i <= j, j < n), toR(w.attrs[a].elem(i)) <= toR(w.attrs[a].elem(j))), "precondition", ("C12",)))
    return obs


def build_bootstrap():
    obs = []
    for sm in ("replacement", "single_pass"):
        for strat in (None, "by_label"):
            ex = new_exec()
            path = Path()
            me = mk_group_scores(ex, path)
            path.add(And(toI(me.attrs["pos"].axes[0].size) >= 1, toI(me.attrs["neg"].axes[0].size) >= 1))
            cfg = Obj("BootstrapConfig", nb_samples=10, bootstrap_method="bca", sampling_method=sm, stratified_sampling=strat, smoothing=False, ratio=None)
            tag = f"[{sm},{strat}]"
            try:
                outs = run_method(ex, "GroupScores", "bootstrap_sample", me, [], {"config": cfg}, path=path)
            except Exception as e:
                obs.append(Oblig(f"C12/bootstrap/executes{tag}", [], BoolVal(False), "post", ("C12",), {"engine_error": f"{type(e).__name__}: {e}"}))
                continue
            live = [o for o in outs if not o.raised]
            obs.append(Oblig(f"C12/bootstrap/returns-without-raising{tag}", [], BoolVal(len(live) >= 1 and len(live) == len(outs)), "post", ("C12",), {"paths": len(outs)}))
            for pi_, o in enumerate(live):
                w, hy = o.value, o.path.pc
                pt = f"/path{pi_}" if len(live) > 1 else ""
                ok = isinstance(w, Obj) and w.cls == "GroupScores" and all(isinstance(w.attrs.get(a), T) for a in ("pos", "neg", "pos_groups", "neg_groups"))
                obs.append(Oblig(f"C12/bootstrap/returns-GroupScores{pt}{tag}", [], BoolVal(bool(ok)), "shape", ("C12",)))
                if not ok:
                    continue
                obs.append(Oblig(f"C12/bootstrap/group_names-and-flags-kept{pt}{tag}", [], BoolVal(P.items_of(w.attrs["groups"]) == list(GROUPS) and w.attrs["score_class"] == me.attrs["score_class"]
                                                                                                      and w.attrs["equal_class"] == me.attrs["equal_class"]), "post", ("C12",)))
                # the constructor of the sample re-orders (replacement) or trusts the order (single pass): in both cases the
                # pair (score, label) at position k of the sample is a pair of the source at one index
                k, i, j = ex.new_int("k"), ex.new_int("i"), ex.new_int("j")
                for nm in ("pos", "neg"):
                    a, g = w.attrs[nm], w.attrs[nm + "_groups"]
                    n = toI(a.axes[0].size)
                    idx = o.env.get(f"{nm}_idx")
                    src, gsrc = me.attrs[nm], me.attrs[nm + "_groups"]
                    ns = toI(src.axes[0].size)
                    if not isinstance(idx, T):
                        obs.append(Oblig(f"C12/bootstrap/{nm}-index-witness{pt}{tag}", [], BoolVal(False), "post", ("C12",), {"engine_error": "no index array"}))
                        continue
                    # witness index into the source for position k of the sample: idx[k] (single pass) or idx[pi'(k)] (re-sorted)
                    inner = getattr(a, "named_of", None)
                    wit = idx.elem(k)
                    perm = None
                    for t_ in (o.env.get("self"),):
                        pass
                    # find the argsort permutation used by the sample's constructor, if any
                    cand = [v for v in ex.__dict__.get("argsort_log", [])]
                    goal_pairs = Or(And(0 <= toI(idx.elem(k)), toI(idx.elem(k)) < ns, toR(a.elem(k)) == toR(src.elem(idx.elem(k))), toI(g.elem(k)) == toI(gsrc.elem(idx.elem(k)))),
                                    *[And(0 <= pf(k), pf(k) < n, 0 <= toI(idx.elem(pf(k))), toI(idx.elem(pf(k))) < ns, toR(a.elem(k)) == toR(src.elem(idx.elem(pf(k)))),
                                          toI(g.elem(k)) == toI(gsrc.elem(idx.elem(pf(k))))) for pf in cand])
                    obs.append(Oblig(f"C12/bootstrap/{nm}-label-is-the-source-label-at-the-same-index-as-the-score{pt}{tag}", hy + [0 <= k, k < n], goal_pairs, "post", ("C12",),
                                     {"key": f"C12/bootstrap/{nm}-label-travels"}))
                    obs.append(Oblig(f"C12/bootstrap/{nm}-ascending(class-invariant){pt}{tag}", hy, Implies(And(0 <= i, i <= j, j < n), toR(a.elem(i)) <= toR(a.elem(j))), "invariant", ("C12",)))
            for s_ in ex.obligs:
                s_.id = f"C12/bootstrap/safety:{s_.id}#{len(obs)}{tag}"
                s_.props = ("C12",)
                obs.append(s_)
    # unsupported configurations raise
    for name, kw in (("smoothing-raises", dict(sampling_method="replacement", stratified_sampling=None, smoothing=True)),
                     ("proportion-raises", dict(sampling_method="proportion", stratified_sampling=None, smoothing=False)),
                     ("unknown-stratification-raises", dict(sampling_method="replacement", stratified_sampling="by_color", smoothing=False)),
                     ("unknown-method-raises", dict(sampling_method="bogus", stratified_sampling=None, smoothing=False))):
        ex = new_exec()
        path = Path()
        me = mk_group_scores(ex, path)
        cfg = Obj("BootstrapConfig", nb_samples=10, bootstrap_method="bca", ratio=0.5, **kw)
        try:
            outs = run_method(ex, "GroupScores", "bootstrap_sample", me, [], {"config": cfg}, path=path)
            obs.append(Oblig(f"C12/bootstrap/{name}", [], BoolVal(bool(outs) and all(o.raised and "ValueError" in str(o.value.exc) for o in outs)), "post", ("C12",)))
        except Exception as e:
            obs.append(Oblig(f"C12/bootstrap/{name}", [], BoolVal(False), "post", ("C12",), {"engine_error": f"{type(e).__name__}: {e}"}))
    return obs


def build_partition():
    """sum over groups of the per-group confusion matrices = overall confusion matrix (lemma L7 by induction on the prefix length)"""
    from z3 import ForAll, Function, If, Sum
    obs = []
    for sc, ec in (("pos", "pos"), ("pos", "neg"), ("neg", "pos"), ("neg", "neg")):
        ex = new_exec()
        path = Path()
        me = mk_group_scores(ex, path, sc, ec)
        t = Real("t")
        tag = f"[{sc},{ec}]"

        def ob(name, goal, hyps, kind="post", meta=None):
            obs.append(Oblig(f"C12/partition/{name}{tag}", hyps, goal, kind, ("C12",), dict({"key": f"C12/partition/{name}"}, **(meta or {}))))
        o1 = run_method(ex, "GroupScores", "group_cm", me, [t], path=path)
        ok = len(o1) == 1 and not o1[0].raised
        ob("group_cm-single-path", BoolVal(ok), [], "post", multi_path_meta(o1))
        if not ok:
            continue
        GM = o1[0].value.attrs["matrix"]
        o2 = run_method(ex, "Scores", "cm", me, [t], path=o1[0].path)
        ok2 = len(o2) == 1 and not o2[0].raised
        ob("cm-single-path", BoolVal(ok2), [], "post", multi_path_meta(o2))
        if not ok2:
            continue
        OM = o2[0].value.attrs["matrix"]
        hy = list(o2[0].path.pc)
        subs = me.attrs["_grouped_scores"]
        if not (isinstance(subs, dict) and sorted(subs) == sorted(GROUPS)):
            ob("every-group-indexed-once", BoolVal(False), [], "post", {"engine_error": "group cache not recognised"})
            continue
        lemmas = []
        k, K = Int("k!ind"), Int("K!ind")
        for nm in ("pos", "neg"):
            src, lab = me.attrs[nm], me.attrs[nm + "_groups"]
            A, n = src.sym
            n = toI(n)
            # pre-condition of the partition clause: every label is one of group_names
            pre = ForAll([k], Implies(And(0 <= k, k < n), Or(*[toI(lab.elem(k)) == g for g in GROUPS])), patterns=[lab.elem(k)])
            rank, invs, cuts = {}, {}, {}
            ax = []
            for g in GROUPS:
                sel = getattr(subs[g].attrs[nm], "select_of", None)
                if sel is None:
                    # the constructor re-sorts nothing (is_sorted=True) -- the selection is the array itself; look one level down
                    sel = getattr(getattr(subs[g].attrs[nm], "named_of", None), "select_of", None)
                if sel is None:
                    ob(f"{nm}-group-{g}-is-a-mask-selection", BoolVal(False), [], "post", {"engine_error": "no selection witness"})
                    break
                _, mask, sigma, rho, m = sel
                r = Function(f"rank_{nm}_{g}", IntSort(), IntSort())
                rank[g] = r
                ax += [r(0) == 0, ForAll([k], Implies(k >= 0, r(k + 1) == r(k) + If(toI(lab.elem(k)) == g, 1, 0)), patterns=[r(k + 1)])]
                invs[g] = lambda kk, r=r, sigma=sigma, m=m: And(0 <= r(kk), r(kk) <= m, Or(r(kk) == 0, sigma(r(kk) - 1) < kk), Or(r(kk) == m, sigma(r(kk)) >= kk))
                cuts[g] = (sigma, rho, m, mask)
            else:
                base_h = hy + ax + [pre]
                # (A) the ranks add up to the prefix length
                ob(f"L7/{nm}/A-base: ranks add up to 0 at k=0", Sum([rank[g](0) for g in GROUPS]) == 0, base_h, "lemma")
                ob(f"L7/{nm}/A-step: ranks add up to k+1", Sum([rank[g](K + 1) for g in GROUPS]) == K + 1, base_h + [0 <= K, K < n, Sum([rank[g](K) for g in GROUPS]) == K], "lemma")
                lemA = ForAll([k], Implies(And(0 <= k, k <= n), Sum([rank[g](k) for g in GROUPS]) == k), patterns=[rank[GROUPS[0]](k)])
                lemB = []
                for g in GROUPS:
                    sigma, rho, m, mask = cuts[g]
                    # the mask of the selection is `labels == g`
                    ob(f"L7/{nm}/group-{g}: the selection mask is labels == g", toB(mask.elem(K)) == (toI(lab.elem(K)) == g), base_h + [0 <= K, K < n], "lemma")
                    maskdef = ForAll([k], Implies(And(0 <= k, k < n), toB(mask.elem(k)) == (toI(lab.elem(k)) == g)), patterns=[lab.elem(k)])
                    ob(f"L7/{nm}/group-{g}/B-base: rank is the cut of sigma at k=0", invs[g](0), base_h + [maskdef], "lemma")
                    ob(f"L7/{nm}/group-{g}/B-step: rank is the cut of sigma at k+1", invs[g](K + 1), base_h + [maskdef, 0 <= K, K < n, invs[g](K)], "lemma", {"idx": [str(K), str(rank[g](K)), str(rank[g](K) - 1)]})
                    lemB.append(ForAll([k], Implies(And(0 <= k, k <= n), invs[g](k)), patterns=[rank[g](k)]))
                lemmas.append((nm, src, n, rank, cuts, ax, pre, lemA, lemB, invs))
        if len(lemmas) != 2:
            continue
        # use: per class and group, count_g(t) = rank_g(count(t)) for both counting functions; sizes m_g = rank_g(n)
        facts = []
        for nm, src, n, rank, cuts, ax, pre, lemA, lemB, invs in lemmas:
            A = src.sym[0]
            hyL = hy + ax + [pre, lemA] + lemB
            logs = [e_ for e_ in ex.__dict__.get("ss_log", [])]
            for g in GROUPS:
                sigma, rho, m, mask = cuts[g]
                ob(f"L7/{nm}/group-{g}: size is rank(n)", m == rank[g](n), hyL + [invs_at for invs_at in ()], "lemma")
                facts.append(m == rank[g](n))
                # the named copy the per-group searchsorted worked on
                named = [e_ for e_ in logs if e_["N"].get_id() == m.get_id() or str(e_["N"]) == str(m)]
                for e_ in named[:1]:
                    Ag = e_["A"]
                    for strict, cf in ((True, P.cnt_lt), (False, P.cnt_le)):
                        ks = cf(A, n, t)
                        goal = cf(Ag, m, t) == rank[g](ks)
                        extra = [P.cnt_char(A, n, t), P.cnt_char(Ag, m, t), 0 <= ks, ks <= n]
                        # only the facts about this group's selection map, its named copy and the source array are needed
                        names = {str(sigma), str(rho), str(Ag), str(m)}
                        rel = [h for h in hy if any(nm_ in h.sexpr() for nm_ in names)] + [P.sorted_formula(A, n)] if src.facts.get("sorted") else None
                        if rel is None:
                            rel = hy
                        inst = Implies(And(0 <= ks, ks <= n), invs[g](ks))
                        ob(f"L7/{nm}/group-{g}: count{'<' if strict else '<='}(group, t) = rank(count(all, t))", goal, rel + [lemB[GROUPS.index(g)], inst] + extra, "lemma",
                           {"idx": [str(ks), str(rank[g](ks)), str(rank[g](ks) - 1), str(cf(Ag, m, t)), str(cf(Ag, m, t) - 1)]})
                        facts.append(goal)
            facts.append(lemA)
        # the clause: cells add up
        for a in (0, 1):
            for b in (0, 1):
                tot = sum((toR(GM.elem(gi, a, b)) for gi in range(1, len(GROUPS))), toR(GM.elem(0, a, b)))
                ob(f"cell-{a}{b}-summed-over-groups-equals-the-overall-cell", tot == toR(OM.elem(a, b)), hy + facts + [P.cnt_char(src.sym[0], toI(src.sym[1]), t) for (_, src, *_r) in lemmas], "post")
        for s_ in ex.obligs:
            s_.id = f"C12/partition/safety:{s_.id}#{len(obs)}{tag}"
            s_.props = ("C12",)
            obs.append(s_)
    return obs


def build_bootstrap_by_group():
    """by_group stratification, checked modularly: self[g] and Scores._sample_indices are replaced by their contracts"""
    from z3 import Function
    obs = []
    for sm in ("replacement", "single_pass"):
        ex = new_exec()
        path = Path()
        me = mk_group_scores(ex, path, "pos", "neg")
        src = {nm: (me.attrs[nm], me.attrs[nm + "_groups"]) for nm in ("pos", "neg")}
        subs, idxs = {}, {}

        def c_getitem(ex_, p_, self_, g):
            # contract of GroupScores.__getitem__ (obligations C12/__getitem__/*): a Scores holding, in ascending order, scores of the
            # source labelled g (witness w), with the flags copied and no easy samples
            if self_ is not me or g not in GROUPS:
                raise AssertionError("contract used outside its precondition")
            parts = {}
            for nm in ("pos", "neg"):
                a = P.mk_array(ex_, p_, f"sub_{nm}_{g}", None, ascending=True, prov="fresh")
                w = Function(f"w_{nm}_{g}", IntSort(), IntSort())
                k = Int(f"kq_{nm}_{g}")
                s_, gs_ = src[nm]
                from z3 import ForAll
                p_.add(ForAll([k], Implies(And(0 <= k, k < toI(a.axes[0].size)), And(0 <= w(k), w(k) < toI(s_.axes[0].size), toR(s_.elem(w(k))) == toR(a.elem(k)), toI(gs_.elem(w(k))) == g)),
                              patterns=[a.elem(k)]))
                parts[nm] = a
                subs[(nm, g)] = (a, w)
            o_ = Obj("Scores", pos=parts["pos"], neg=parts["neg"], nb_easy_pos=0, nb_easy_neg=0, score_class=self_.attrs["score_class"], equal_class=self_.attrs["equal_class"])
            o_.group = g
            return o_

        def c_sample_indices(ex_, p_, self_, by_label=None, single_pass=None):
            # contract of Scores._sample_indices without easy samples (C11 membership/sizes obligations): index arrays into pos / neg,
            # with by_label=False the total number of drawn samples is the total number of samples
            g = getattr(self_, "group", None)
            if g is None or by_label is not False:
                raise AssertionError("contract used outside its precondition")
            out = []
            for nm in ("pos", "neg"):
                n_src = toI(self_.attrs[nm].axes[0].size)
                m = Int(f"m_{nm}_{g}")
                A = Array(f"idx_{nm}_{g}", IntSort(), IntSort())
                k = Int(f"ki_{nm}_{g}")
                from z3 import ForAll
                p_.add(m >= 0)
                p_.add(ForAll([k], Implies(And(0 <= k, k < m), And(0 <= A[k], A[k] < n_src)), patterns=[A[k]]))
                t = T((Axis(f"idx_{nm}_{g}", m),), lambda q, A=A: A[toI(q)], kind="int", prov="fresh")
                idxs[(nm, g)] = (t, m)
                out.append(t)
            p_.add(idxs[("pos", g)][1] + idxs[("neg", g)][1] == toI(self_.attrs["pos"].axes[0].size) + toI(self_.attrs["neg"].axes[0].size))
            return (out[0], out[1], 0, 0)
        ex.contracts[("GroupScores", "__getitem__")] = c_getitem
        ex.contracts[("Scores", "_sample_indices")] = c_sample_indices
        cfg = Obj("BootstrapConfig", nb_samples=10, bootstrap_method="bca", sampling_method=sm, stratified_sampling="by_group", smoothing=False, ratio=None)
        tag = f"[{sm},by_group]"
        try:
            outs = run_method(ex, "GroupScores", "bootstrap_sample", me, [], {"config": cfg}, path=path)
        except Exception as e:
            if os.environ.get("VERIF_DEBUG"):
                import traceback
                traceback.print_exc()
            obs.append(Oblig(f"C12/bootstrap/executes{tag}", [], BoolVal(False), "post", ("C12",), {"engine_error": f"{type(e).__name__}: {e}"}))
            continue
        live = [o for o in outs if not o.raised]
        obs.append(Oblig(f"C12/bootstrap/returns-without-raising{tag}", [], BoolVal(len(live) == 1 and len(outs) == 1), "post", ("C12",), dict({"paths": len(outs)}, **multi_path_meta(outs))))
        obs.append(Oblig(f"C12/bootstrap/every-group-resampled-once{tag}", [], BoolVal(sorted(g for (nm, g) in idxs if nm == "pos") == sorted(GROUPS)), "post", ("C12",)))
        for o in live:
            w_, hy = o.value, o.path.pc
            ok = isinstance(w_, Obj) and w_.cls == "GroupScores" and all(isinstance(w_.attrs.get(a), T) for a in ("pos", "neg", "pos_groups", "neg_groups"))
            obs.append(Oblig(f"C12/bootstrap/returns-GroupScores{tag}", [], BoolVal(bool(ok)), "shape", ("C12",)))
            if not ok or sorted(g for (nm, g) in idxs if nm == "pos") != sorted(GROUPS):
                continue
            obs.append(Oblig(f"C12/bootstrap/group_names-and-flags-kept{tag}", [], BoolVal(P.items_of(w_.attrs["groups"]) == list(GROUPS) and w_.attrs["score_class"] == me.attrs["score_class"]
                                                                                        and w_.attrs["equal_class"] == me.attrs["equal_class"]), "post", ("C12",)))
            k, i, j = ex.new_int("k"), ex.new_int("i"), ex.new_int("j")
            cand = list(ex.__dict__.get("argsort_log", []))
            for nm in ("pos", "neg"):
                a, g_ = w_.attrs[nm], w_.attrs[nm + "_groups"]
                n = toI(a.axes[0].size)
                s_, gs_ = src[nm]
                sizes = [idxs[(nm, g)][1] for g in GROUPS]
                obs.append(Oblig(f"C12/bootstrap/{nm}-sample-size-is-the-sum-of-the-group-draws{tag}", hy, n == sum(sizes[1:], sizes[0]), "post", ("C12",)))
                # position k of the sample is position pf(k) of the concatenation; that lies in the block of one group g, at offset q,
                # and is the score sub_g[idx_g[q]] = source[w_g(idx_g[q])] whose source label is g -- and the sample label is g
                # the class invariant of the sample (its constructor sorts, or the site owes ascending arrays) -- stated first, independent
                # of how the order is established
                obs.append(Oblig(f"C12/bootstrap/{nm}-ascending(class-invariant){tag}", hy, Implies(And(0 <= i, i <= j, j < n), toR(a.elem(i)) <= toR(a.elem(j))), "invariant", ("C12",)))
                pf = cand[("pos", "neg").index(nm)] if len(cand) == 2 else None
                if pf is None:
                    obs.append(Oblig(f"C12/bootstrap/{nm}-pair-is-a-source-pair-with-the-same-label{tag}", [], BoolVal(False), "post", ("C12",), {"engine_error": "argsort witnesses not found"}))
                    continue
                obs.append(Oblig(f"C12/bootstrap/{nm}-position-lies-in-one-group-block{tag}", hy + [0 <= k, k < n], And(0 <= pf(k), pf(k) < sum(sizes[1:], sizes[0])), "post", ("C12",)))
                off = 0
                for g in GROUPS:
                    (it, m), (sa, w) = idxs[(nm, g)], subs[(nm, g)]
                    q = pf(k) - off
                    jsrc = w(toI(it.elem(q)))
                    obs.append(Oblig(f"C12/bootstrap/{nm}-pair-is-a-source-pair-with-the-same-label/block-{g}{tag}", hy + [0 <= k, k < n, off <= pf(k), pf(k) < off + m],
                                     And(0 <= jsrc, jsrc < toI(s_.axes[0].size), toR(a.elem(k)) == toR(s_.elem(jsrc)), toI(g_.elem(k)) == g, toI(gs_.elem(jsrc)) == g), "post", ("C12",),
                                     {"key": f"C12/bootstrap/{nm}-label-travels"}))
                    off = off + m
            for g in GROUPS:
                tot_src = toI(subs[("pos", g)][0].axes[0].size) + toI(subs[("neg", g)][0].axes[0].size)
                obs.append(Oblig(f"C12/bootstrap/group-{g}-keeps-its-total-size{tag}", hy, idxs[("pos", g)][1] + idxs[("neg", g)][1] == tot_src, "post", ("C12",)))
        for s_ in ex.obligs:
            s_.id = f"C12/bootstrap/safety:{s_.id}#{len(obs)}{tag}"
            s_.props = ("C12",)
            obs.append(s_)
    return obs


# ----------------------------------------------------------------------------------------------------------------
# bounded layer

def oracle(case):
    from vf.framework import real_repo
    real_repo()
    from score_analysis import BootstrapConfig, GroupScores, Scores
    from score_analysis.group_scores import groupwise
    rng = np.random.RandomState(case["seed"])
    n = case["n"]
    scores = rng.choice([0.0, 0.5, 1.0, 1.5, 2.0, 2.5], size=n) if case.get("ties") else rng.normal(size=n)
    labels = rng.randint(0, 2, size=n)
    if n >= 2:
        labels[0], labels[1] = 1, 0
    gnames = case["gnames"]
    groups = rng.choice(gnames, size=n)
    if case.get("longest_group_has_no_positives") and n >= 3:
        longest = max(gnames, key=len)
        groups[2] = longest
        labels[groups == longest] = 0
        groups[0], labels[0] = min(gnames, key=len), 1          # both classes stay non-empty
    sc, ec = case["sc"], case["ec"]
    g = GroupScores.from_labels(labels, scores, groups, score_class=sc, equal_class=ec)
    if case.get("longest_group_has_no_positives"):
        # label arrays given per class as plain lists: their string widths differ between the classes
        g = GroupScores(pos=scores[labels == 1].tolist(), neg=scores[labels != 1].tolist(), pos_groups=groups[labels == 1].tolist(), neg_groups=groups[labels != 1].tolist(),
                        score_class=sc, equal_class=ec)
    if case.get("explicit_names"):
        # explicitly supplied names keep the order they were given in (here: not the sorted order)
        g = GroupScores(pos=g.pos, neg=g.neg, pos_groups=g.pos_groups, neg_groups=g.neg_groups, score_class=sc, equal_class=ec, group_names=list(case["explicit_names"]))
        if list(g.groups) != list(case["explicit_names"]):
            return f"constructor: explicit group_names not kept in the given order [{case}]"
    info = f"[{case}]"
    pairs = lambda s, gg: sorted(zip(np.asarray(s).tolist(), np.asarray(gg).tolist()))
    if pairs(g.pos, g.pos_groups) != pairs(scores[labels == 1], groups[labels == 1]) or pairs(g.neg, g.neg_groups) != pairs(scores[labels != 1], groups[labels != 1]):
        return f"constructor: (score, label) pairs changed {info}"
    if np.any(np.diff(g.pos) < 0) or np.any(np.diff(g.neg) < 0):
        return f"constructor: scores not ascending {info}"
    t = B.thresholds_for(list(scores))
    tot = np.zeros((len(t), 2, 2), dtype=int)
    gcm = np.asarray(g.group_cm(t).matrix)
    for gi, name in enumerate(g.groups):
        sub = g[name]
        want_p, want_n = np.sort(scores[(labels == 1) & (groups == name)]), np.sort(scores[(labels != 1) & (groups == name)])
        if not (np.array_equal(sub.pos, want_p) and np.array_equal(sub.neg, want_n)):
            return f"self[{name!r}] does not hold exactly the scores labelled {name!r} {info}"
        ref = Scores(want_p, want_n, score_class=sc, equal_class=ec)
        m = np.asarray(ref.cm(t).matrix)
        if not np.array_equal(gcm[gi], m):
            return f"group_cm row for {name!r} differs from the confusion matrix of the filtered data {info}"
        tot += m
    if not np.array_equal(tot, np.asarray(g.cm(t).matrix)) or not np.array_equal(gcm.sum(axis=0), np.asarray(g.cm(t).matrix)):
        return f"per-group confusion matrices do not sum to the overall one {info}"
    gw = groupwise("fnr")(g, threshold=0.25)
    with np.errstate(all="ignore"):
        exp = np.stack([g[name].fnr(0.25) for name in g.groups])
    if not np.array_equal(np.asarray(gw, dtype=float), np.asarray(exp, dtype=float), equal_nan=True):
        return f"groupwise('fnr') differs from the metric applied group by group {info}"
    w = g.swap()
    if pairs(w.pos, w.pos_groups) != pairs(g.neg, g.neg_groups) or pairs(w.neg, w.neg_groups) != pairs(g.pos, g.pos_groups) or not set(np.asarray(groups).tolist()) <= set(np.asarray(w.groups).tolist()):
        return f"swap lost the association between scores and labels {info}"
    src_pairs_p, src_pairs_n = set(pairs(g.pos, g.pos_groups)), set(pairs(g.neg, g.neg_groups))
    if case.get("ties"):
        return None
    for sm, strat in case["samplers"]:
        cfg = BootstrapConfig(sampling_method=sm, stratified_sampling=strat)
        np.random.seed(case["seed"] + 11)
        for rep in range(case["reps"]):
            try:
                b = g.bootstrap_sample(cfg)
            except (ValueError, ZeroDivisionError) as e:
                # the property is stated "where every sampled stratum is non-empty": a group lacking a class under by_group sampling is out of scope
                lacks = any(len(g[name].pos) == 0 or len(g[name].neg) == 0 for name in g.groups)
                if strat == "by_group" and (lacks or "a must be greater than 0" in str(e)) or "Cannot" in str(e):
                    continue
                raise
            if not (set(pairs(b.pos, b.pos_groups)) <= src_pairs_p and set(pairs(b.neg, b.neg_groups)) <= src_pairs_n):
                return f"bootstrap sample ({sm}, {strat}): a score carries a label it did not have in the source {info}"
            if list(b.groups) != list(g.groups):
                return f"bootstrap sample ({sm}, {strat}): group names / order changed {info}"
            if np.any(np.diff(b.pos) < 0) or np.any(np.diff(b.neg) < 0):
                return f"bootstrap sample ({sm}, {strat}): scores not ascending {info}"
            tt = float(np.median(scores))
            if not np.array_equal(np.asarray(b.group_cm(tt).matrix).sum(axis=0), np.asarray(b.cm(tt).matrix)):
                return f"bootstrap sample ({sm}, {strat}): group confusion matrices do not sum to the overall one {info}"
            if strat == "by_group" and sm != "single_pass":
                for name in g.groups:
                    if len(b[name].pos) + len(b[name].neg) != len(g[name].pos) + len(g[name].neg):
                        return f"by_group stratification changed the size of group {name!r} {info}"
    return None


def replay(case):
    return oracle(case)


def eval_items(items):
    counts, viols = {"groups": [0, 0]}, []
    for case in items:
        try:
            res = oracle(case)
        except Exception as e:
            res = f"raised {type(e).__name__}: {e} for {case}"
        counts["groups"][0] += 1
        counts["groups"][1] += 1
        if res:
            viols.append(("groups", f"C12/bounded/{' '.join(res.split(' ')[:5])[:60]}", res, B.jsonable(case)))
    return counts, viols, []


def bounded(chk):
    from vf.framework import run_bounded
    items = []
    samplers = [("replacement", None), ("replacement", "by_label"), ("replacement", "by_group"), ("dynamic", None), ("dynamic", "by_group"), ("single_pass", None), ("single_pass", "by_label")]
    for seed in range(6 if chk.tier == "quick" else 20):
        for n in (2, 5, 8, 30):
            for gnames in (["a"], ["a", "b"], ["x", "y", "z"], ["g_1", "g_2"]):
                for sc, ec in (("pos", "pos"), ("neg", "neg"), ("pos", "neg")):
                    items.append({"n": n, "gnames": gnames, "sc": sc, "ec": ec, "seed": chk.seed * 1000 + seed, "ties": seed % 3 == 2, "samplers": samplers, "reps": 5})
        items.append({"n": 400, "gnames": ["a", "b"], "sc": "pos", "ec": "pos", "seed": chk.seed * 1000 + seed, "ties": False,
                      "samplers": [("dynamic", None), ("dynamic", "by_label"), ("dynamic", "by_group"), ("replacement", "by_group"), ("single_pass", "by_group")], "reps": 2})
        # explicit group names in an order that is not the sorted one (rows of group_cm / groupwise follow that order)
        for n in (8, 30):
            items.append({"n": n, "gnames": ["x", "y", "z"], "explicit_names": ["z", "x", "y"], "sc": "pos", "ec": "pos" if seed % 2 else "neg", "seed": chk.seed * 1000 + seed,
                          "ties": seed % 3 == 2, "samplers": samplers, "reps": 3})
        # group names of different lengths, the longest-named group has no positives (label arrays of the two classes have different widths)
        for n in (8, 30):
            items.append({"n": n, "gnames": ["a", "ctrl-group"], "sc": "pos", "ec": "neg", "seed": chk.seed * 1000 + seed, "ties": False, "samplers": samplers, "reps": 5,
                          "longest_group_has_no_positives": True})
    chk.bounded["bound"] = "2..30 (and 400) labelled scores, 1..3 groups (groups may lack a class), ties on every third seed, 3 configurations, every sampling x stratification mode incl. by_group (also dynamic above the single-pass switch), group names of different lengths with a class missing in the longest-named group, 5 samples each"
    chk.bounded["rule"] = "seeded"
    run_bounded(chk, items, eval_items)
    chk.samples.append({"bounded-case": items[5]})


def run(chk):
    prove(chk, build, replay=replay, parts=PARTS)
    bounded(chk)
