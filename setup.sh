#!/bin/bash
# Idempotent offline setup: builds /verif/.venv (python 3.12 from /venv) with z3-solver, cvc5,
# jsonschema from the offline wheelhouse, plus a .pth that overlays /venv's site-packages
# (numpy, scipy, pandas: the repository's own dependencies).  Nothing is fetched.
set -e
cd "$(dirname "$0")"
V=.venv
if [ -x "$V/bin/python" ] && "$V/bin/python" -c "import z3, numpy, scipy, pandas, jsonschema" 2>/dev/null; then
  exit 0
fi
rm -rf "$V"
/venv/bin/python -m venv "$V"
PIP_NO_INDEX=1 "$V/bin/python" -m pip install -q --no-index --find-links /opt/veriftools/wheels \
    z3-solver cvc5 jsonschema >/dev/null
SP=$("$V/bin/python" -c "import sysconfig; print(sysconfig.get_paths()['purelib'])")
echo "import site; site.addsitedir('/venv/lib/python3.12/site-packages')" > "$SP/_ovl.pth"
"$V/bin/python" -c "import z3, numpy, scipy, pandas, jsonschema; print('setup ok: z3', z3.get_version_string(), 'numpy', numpy.__version__)"
