"""C08 -- results are symmetric under class swap, direction reversal and rescaling (relational obligations over two symbolic
executions of the real bodies).

  swap      Scores.swap() is executed; constructor site is_sorted=True owes ascending arrays; cm(swap)(t) is the transposed and
            flipped cm(t)  =>  FPR/TPR/TOPR of the original = FNR/TNR/TONR of the swapped object and vice versa
  negation  B = -A reversed, score_class flipped:  cm_B(-t) = cm_A(t)   (lemma L4: reflection of the counting functions)
            threshold_at_*(r) negates (method linear, interior zone and special cases)
  monotone  B = f(A) for a strictly increasing f (covers a*s+b, a>0):  cm_B(f(t)) = cm_A(t);  'lower'/'higher' thresholds map by f in
            the interior zone;  linear thresholds map by the affine map (polynomial identity)
Float effects, EER and AUC invariance are covered by the bounded layer only.
"""
import numpy as np
from z3 import And, Array, BoolVal, ForAll, Function, If, Implies, Int, IntSort, Not, Or, Real, RealSort, RealVal, ToReal

from vf import bounded as B
from vf import prims as P
from vf.common import label, mk_scores, new_exec, run_method
from vf.engine import FV, Axis, Obj, Oblig, Path, T, is_sym, nan_of, toB, toI, toR
from vf.proof import prove
from props import thr as TH
from props.c10 import same_val

LEVEL = "proof"
FLIP = {"pos": "neg", "neg": "pos"}


def cells(res):
    m = res.attrs["matrix"]
    return {(a, b): toI(m.elem(a, b)) for a in (0, 1) for b in (0, 1)}


def run_cm(ex, me, t, path):
    outs = run_method(ex, "Scores", "cm", me, [t], path=path)
    (o,) = outs
    return o.value, o.path


def build(sizes=None, only=None, part=None):
    obs = []
    if sizes is not None:
        return obs
    for sc, ec in B.CONFIGS:
        if part is not None and part != f"{sc},{ec}":
            continue
        tag = f"[{sc},{ec}]"
        for fn in (build_swap, build_negation, build_monotone, build_negation_thresholds, build_affine_thresholds):
            try:
                obs += fn(sc, ec, tag)
            except Exception as e:      # engine limitation: undecided, never a verdict
                obs.append(Oblig(f"C08/{fn.__name__[6:]}/executes{tag}", [], BoolVal(False), "post", ("C08",), {"engine_error": f"{type(e).__name__}: {e}"}))
    return obs


PARTS = [f"{sc},{ec}" for sc, ec in B.CONFIGS]


def build_swap(sc, ec, tag):
    obs = []
    ex = new_exec()
    path = Path()
    me = mk_scores(ex, path, sc, ec)
    t = Real("t")
    (o,) = run_method(ex, "Scores", "swap", me, [], path=path)
    sw, path = o.value, o.path

    def ob(name, goal, kind="post", hyps=None):
        obs.append(Oblig(f"C08/swap/{name}{tag}", hyps if hyps is not None else path.pc, goal, kind, ("C08",), {"key": f"C08/swap/{name}{tag}"}))
    ok = isinstance(sw, Obj) and sw.cls == "Scores" and all(k in sw.attrs for k in ("pos", "neg", "nb_easy_pos", "nb_easy_neg", "score_class", "equal_class"))
    ob("returns-a-Scores-object", BoolVal(bool(ok)), "shape", [])
    if not ok:
        return obs
    for nm in ("pos", "neg"):
        a = sw.attrs[nm]
        g = P.sorted_formula(a.sym[0], a.sym[1]) if isinstance(a, T) and a.sym is not None else BoolVal(False)
        ob(f"constructor-site-is_sorted=True-owes-ascending-{nm}", g, "precondition")
    ob("labels-flipped", BoolVal(sw.attrs["score_class"] == label(ex, FLIP[sc]) and sw.attrs["equal_class"] == label(ex, FLIP[ec])), "post", [])
    r1, path = run_cm(ex, me, t, path)
    r2, path = run_cm(ex, sw, t, path)
    c1, c2 = cells(r1), cells(r2)
    hy = path.pc
    for (a, b), (a2, b2) in {(0, 0): (1, 1), (0, 1): (1, 0), (1, 0): (0, 1), (1, 1): (0, 0)}.items():
        ob(f"cm-cell{a}{b}-of-swap=cell{a2}{b2}", c2[(a, b)] == c1[(a2, b2)], hyps=hy)
    # rate level, through the real metric code on both objects
    pairs = [("fpr", "fnr"), ("tpr", "tnr"), ("topr", "tonr"), ("fnr", "fpr"), ("tnr", "tpr"), ("tonr", "topr")]
    for qa, qb in pairs:
        (oa,) = run_method(ex, "Scores", qa, me, [t], path=path)
        (ob_,) = run_method(ex, "Scores", qb, sw, [t], path=oa.path)
        path = ob_.path
        ob(f"{qa}(original)={qb}(swapped)", same_val(oa.value, ob_.value), "relational", path.pc)
    for so in ex.obligs:
        so.id = f"C08/swap/safety:{so.id}{tag}"
        so.props = ("C08",)
        obs.append(so)
    return obs


def reflected(ex, path, a, name):
    """B[i] = -A[n-1-i]  (the ascending arrangement of the negated multiset)"""
    A, N = a.sym
    Bz = Array(f"{name}!{next(ex.fresh)}", IntSort(), RealSort())
    i = Int("i!rf")
    path.add(ForAll([i], Implies(And(0 <= i, i < N), Bz[i] == -A[N - 1 - i]), patterns=[Bz[i]]))
    path.add(ForAll([i], Implies(And(0 <= i, i < N), A[i] == -Bz[N - 1 - i]), patterns=[A[i]]))
    path.add(P.float_formula(Bz))
    b = T((Axis(name, N),), lambda k: Bz[toI(k)], prov="attr:" + name, sym=(Bz, N))
    b.facts["cnt"] = lambda v, strict_, Bz=Bz, N=N: (P.cnt_lt if strict_ else P.cnt_le)(Bz, N, toR(v))
    return b


def build_negation(sc, ec, tag):
    obs = []
    ex = new_exec()
    path = Path()
    me = mk_scores(ex, path, sc, ec)
    t = Real("t")
    bp, bn = reflected(ex, path, me.attrs["pos"], "negpos"), reflected(ex, path, me.attrs["neg"], "negneg")

    def ob(name, goal, kind="post", hyps=None, meta=None):
        obs.append(Oblig(f"C08/negation/{name}{tag}", hyps if hyps is not None else path.pc, goal, kind, ("C08",), dict({"key": f"C08/negation/{name}{tag}"}, **(meta or {}))))
    # L6: the reflected arrays are ascending (lemma, then used as a fact)
    for b in (bp, bn):
        ob(f"lemma-L6-reflected-{b.axes[0].name}-ascending", P.sorted_formula(*b.sym), "lemma")
    for b in (bp, bn):
        path.add(P.sorted_formula(*b.sym))
        b.facts["sorted"] = True
    mb = Obj("Scores", pos=bp, neg=bn, nb_easy_pos=me.attrs["nb_easy_pos"], nb_easy_neg=me.attrs["nb_easy_neg"],
             score_class=label(ex, FLIP[sc]), equal_class=label(ex, ec))
    # L4 instances: cnt_lt(B,-t) = n - cnt_le(A,t), cnt_le(B,-t) = n - cnt_lt(A,t)   (proved here by index instantiation)
    for a, b in ((me.attrs["pos"], bp), (me.attrs["neg"], bn)):
        A, N = a.sym
        Bz, _ = b.sym
        path.add(P.cnt_char(A, N, t))
        path.add(P.cnt_char(Bz, N, -t))
        k1, k2, l1, l2 = P.cnt_lt(A, N, t), P.cnt_le(A, N, t), P.cnt_lt(Bz, N, -t), P.cnt_le(Bz, N, -t)
        idx = [l1, l1 - 1, l2, l2 - 1, N - 1 - l1, N - l1, N - 1 - l2, N - l2, k1, k1 - 1, k2, k2 - 1, N - 1 - k1, N - k1, N - 1 - k2, N - k2]
        ob(f"lemma-L4-reflection-of-counts-{a.axes[0].name}", And(l1 == N - k2, l2 == N - k1), "lemma", meta={"idx": idx})
    for a, b in ((me.attrs["pos"], bp), (me.attrs["neg"], bn)):
        A, N = a.sym
        Bz, _ = b.sym
        path.add(And(P.cnt_lt(Bz, N, -t) == N - P.cnt_le(A, N, t), P.cnt_le(Bz, N, -t) == N - P.cnt_lt(A, N, t)))
    r1, path = run_cm(ex, me, t, path)
    r2, path = run_cm(ex, mb, -t, path)
    c1, c2 = cells(r1), cells(r2)
    for k in c1:
        ob(f"cm-cell{k[0]}{k[1]}-unchanged-at-negated-threshold", c1[k] == c2[k], hyps=path.pc)
    for so in ex.obligs:
        so.id = f"C08/negation/safety:{so.id}{tag}"
        so.props = ("C08",)
        obs.append(so)
    return obs


def build_negation_thresholds(sc, ec, tag0):
    """threshold_at_{tpr,fnr,tnr,fpr}(r) (linear) on the negated, direction-flipped object is the negated threshold.
    Same two-layer structure as C02: arithmetic hints A1-A3 for both objects, then the array layer with the internal
    targets abstracted (tau' = n - 1 - tau follows from the hints), reflection facts for the arrays and for nextafter."""
    from z3 import Bool, substitute
    from props.thr2 import base_of, un0
    from vf.solve import has_quant
    obs = []
    for metric in ("tpr", "fnr", "tnr", "fpr"):
        for ecase in ("none", "some"):
            tag = tag0[:-1] + f",{metric}," + ("easy=0]" if ecase == "none" else "easy>0]")
            ex = new_exec()
            r1 = TH.ThrRun(metric, sc, ec, "linear", None, ex=ex, easy_case=ecase)
            if not r1.ok or r1.th is None:
                obs.append(Oblig(f"C08/negation/threshold/executes{tag}", [], BoolVal(False), "post", ("C08",), {"engine_error": "no single path"}))
                continue
            path, me = r1.path, r1.me
            env1 = r1.roles()
            bp, bn = reflected(ex, path, me.attrs["pos"], "negpos"), reflected(ex, path, me.attrs["neg"], "negneg")
            for b in (bp, bn):
                path.add(P.sorted_formula(*b.sym))        # L6, discharged in build_negation
                b.facts["sorted"] = True
            mb = Obj("Scores", pos=bp, neg=bn, nb_easy_pos=me.attrs["nb_easy_pos"], nb_easy_neg=me.attrs["nb_easy_neg"],
                     score_class=label(ex, FLIP[sc]), equal_class=label(ex, ec))
            r2 = TH.ThrRun(metric, FLIP[sc], ec, "linear", None, ex=ex, path=path, me=mb, r=r1.r)
            if not r2.ok or r2.th is None:
                obs.append(Oblig(f"C08/negation/threshold/executes{tag}", [], BoolVal(False), "post", ("C08",), {"engine_error": "no single path"}))
                continue
            path = r2.path
            env2 = r2.roles()
            hy = path.pc
            arith = [h for h in hy if not has_quant([h]) and "select" not in h.sexpr()]
            Kc = r1.clipK()
            nrel, loc = ToReal(r1.n_rel), ToReal(r1.lo_c)
            abstr, facts = [], []
            kap = Real("kappa!abs")
            for k, (env, scx) in enumerate(((env1, sc), (env2, FLIP[sc]))):
                T_, rho = toR(un0(env["target"])), toR(un0(env["target_ratio"]))
                shift = 0 if env["left_continuous"] is True else 1
                base = base_of(metric, scx, Kc, nrel, loc)
                for nm, g in (("A1-target-affine", Implies(And(Not(rho <= 0), Not(rho >= 1)), T_ == base - shift)),
                              ("A2-low-special-case", (rho <= 0) == (base <= 0)), ("A3-high-special-case", (rho >= 1) == (base >= nrel))):
                    obs.append(Oblig(f"C08/negation/threshold/arith/{nm}({'negated' if k else 'original'}){tag}", arith, g, "hint", ("C08",)))
                tau, zlo, zhi = Real(f"tau{k}!abs"), Bool(f"zlo{k}!abs"), Bool(f"zhi{k}!abs")
                abstr += [(T_, tau), (rho <= 0, zlo), (RealVal(0) >= rho, zlo), (rho >= 1, zhi), (RealVal(1) <= rho, zhi)]
                bk = base_of(metric, scx, kap, nrel, loc)
                facts += [Implies(And(Not(zlo), Not(zhi)), tau == bk - shift), zlo == (bk <= 0), zhi == (bk >= nrel)]
            abstr.append((Kc, kap))
            facts += [loc <= kap, kap <= loc + nrel, r1.n_rel >= 1, r1.lo_c >= 0]
            # instances of the floor lemma L13 (proved once in C02's lemma set): tau' = (n-1) - tau
            from props.thr2 import floor_reflection
            t0_, t1_ = Real("tau0!abs"), Real("tau1!abs")
            facts += [floor_reflection(t1_, r1.n_rel - 1, t0_), floor_reflection(t0_, r1.n_rel - 1, t1_)]
            arr = me.attrs["pos"] if metric in ("tpr", "fnr") else me.attrs["neg"]
            A, N = arr.sym
            # assumed contract of np.nextafter: nextafter(-x, +inf) = -nextafter(x, -inf)
            facts += [P.nxt_up(-A[N - 1]) == -P.nxt_dn(A[N - 1]), P.nxt_dn(-A[N - 1]) == -P.nxt_up(A[N - 1]),
                      P.nxt_up(-A[0]) == -P.nxt_dn(A[0]), P.nxt_dn(-A[0]) == -P.nxt_up(A[0])]
            hy2 = [substitute(h, *abstr) for h in hy if "cnt_l" not in h.sexpr()] + facts
            th1, th2 = substitute(r1.th, *abstr), substitute(r2.th, *abstr)
            obs.append(Oblig(f"C08/negation/threshold/negated{tag}", hy2, th2 == -th1, "relational", ("C08",),
                             {"key": f"C08/negation/threshold[{metric},{sc},{ec}]", "inst_rounds": 1, "abstracted": True}))
    return obs


def build_affine_thresholds(sc, ec, tag0):
    """B = a*A + b, a > 0 (same labels): outside the two special cases (whose sentinels are 'one float outside the mapped range',
    not affine images) the threshold returned for B is a*th + b, for the three methods.  The internal target index is the
    *same term* in both executions (it depends on r and the counts only), so the claim reduces to the affine image of the
    interpolation, with the array relation instantiated at the two interpolation indices the code uses."""
    from props.thr2 import un0
    obs = []
    a_, b_ = Real("a!aff"), Real("b!aff")
    for metric in ("tpr", "fnr", "tnr", "fpr"):
        for method in TH.METHODS:
            tag = tag0[:-1] + f",{metric},{method}]"
            ex = new_exec()
            r1 = TH.ThrRun(metric, sc, ec, method, None, ex=ex)
            if not r1.ok or r1.th is None:
                obs.append(Oblig(f"C08/affine/threshold/executes{tag}", [], BoolVal(False), "post", ("C08",), {"engine_error": "no single path"}))
                continue
            path, me = r1.path, r1.me
            env1 = r1.roles()
            arrs = {}
            for nm in ("pos", "neg"):
                A, N = me.attrs[nm].sym
                Bz = Array(f"aff{nm}!{next(ex.fresh)}", IntSort(), RealSort())
                path.add(P.float_formula(Bz))
                b = T((Axis("aff" + nm, N),), lambda k, Bz=Bz: Bz[toI(k)], prov="attr:" + nm, sym=(Bz, N))
                b.facts["cnt"] = lambda vv, strict_, Bz=Bz, N=N: (P.cnt_lt if strict_ else P.cnt_le)(Bz, N, toR(vv))
                path.add(P.sorted_formula(Bz, N))       # L6 for increasing maps, discharged in build_monotone
                b.facts["sorted"] = True
                arrs[nm] = b
            mb = Obj("Scores", pos=arrs["pos"], neg=arrs["neg"], nb_easy_pos=me.attrs["nb_easy_pos"], nb_easy_neg=me.attrs["nb_easy_neg"],
                     score_class=label(ex, sc), equal_class=label(ex, ec))
            r2 = TH.ThrRun(metric, sc, ec, method, None, ex=ex, path=path, me=mb, r=r1.r)
            if not r2.ok or r2.th is None:
                obs.append(Oblig(f"C08/affine/threshold/executes{tag}", [], BoolVal(False), "post", ("C08",), {"engine_error": "no single path"}))
                continue
            path = r2.path
            env2 = r2.roles()
            nm = "pos" if metric in ("tpr", "fnr") else "neg"
            A, N = me.attrs[nm].sym
            Bz, _ = arrs[nm].sym
            rho = toR(un0(env1["target_ratio"]))
            li, ri = toI(un0(env2["left_idx"])), toI(un0(env2["right_idx"]))
            inst = [a_ > 0, Bz[li] == a_ * A[li] + b_, Bz[ri] == a_ * A[ri] + b_]
            interior = And(Not(rho <= 0), Not(rho >= 1))
            # pure polynomial identity once the two array reads, their images and the interpolation weight are abstracted
            from z3 import substitute
            x1, x2, y1, y2, lam = Real("x1!abs"), Real("x2!abs"), Real("y1!abs"), Real("y2!abs"), Real("lam!abs")
            sub = [(A[li], x1), (A[ri], x2), (Bz[li], y1), (Bz[ri], y2)]
            if method == "linear":
                sub.append((toR(un0(env2["la"])), lam))
            goal = substitute(Implies(interior, r2.th == a_ * r1.th + b_), *sub)
            hy = [substitute(h, *sub) for h in inst]
            obs.append(Oblig(f"C08/affine/threshold/image-of-threshold{tag}", hy, goal, "relational", ("C08",),
                             {"key": f"C08/affine/threshold[{metric},{sc},{ec}]", "abstracted": True}))
    return obs


def build_monotone(sc, ec, tag):
    """B = f(A) elementwise for a strictly increasing f (a*s+b with a>0 is one such f): confusion matrices are unchanged at
    the mapped threshold"""
    obs = []
    ex = new_exec()
    path = Path()
    me = mk_scores(ex, path, sc, ec)
    t = Real("t")
    f = Function("f!incr", RealSort(), RealSort())
    u, v = Real("u!f"), Real("v!f")
    from z3 import MultiPattern
    path.add(ForAll([u, v], Implies(u < v, f(u) < f(v)), patterns=[MultiPattern(f(u), f(v))]))
    arrs = {}
    for nm in ("pos", "neg"):
        A, N = me.attrs[nm].sym
        Bz = Array(f"f{nm}!{next(ex.fresh)}", IntSort(), RealSort())
        i = Int("i!mf")
        path.add(ForAll([i], Implies(And(0 <= i, i < N), Bz[i] == f(A[i])), patterns=[Bz[i]]))
        path.add(ForAll([i], Implies(And(0 <= i, i < N), Bz[i] == f(A[i])), patterns=[A[i]]))
        path.add(P.float_formula(Bz))
        b = T((Axis("f" + nm, N),), lambda k, Bz=Bz: Bz[toI(k)], prov="attr:" + nm, sym=(Bz, N))
        b.facts["cnt"] = lambda vv, strict_, Bz=Bz, N=N: (P.cnt_lt if strict_ else P.cnt_le)(Bz, N, toR(vv))
        arrs[nm] = b

    def ob(name, goal, kind="post", hyps=None, meta=None):
        obs.append(Oblig(f"C08/monotone-map/{name}{tag}", hyps if hyps is not None else path.pc, goal, kind, ("C08",), dict({"key": f"C08/monotone-map/{name}{tag}"}, **(meta or {}))))
    for nm, b in arrs.items():
        ob(f"lemma-L6-mapped-{nm}-ascending", P.sorted_formula(*b.sym), "lemma")
    for nm, b in arrs.items():
        path.add(P.sorted_formula(*b.sym))
        b.facts["sorted"] = True
    ft = f(t)
    for nm, b in arrs.items():
        A, N = me.attrs[nm].sym
        Bz, _ = b.sym
        path.add(P.cnt_char(A, N, t))
        path.add(P.cnt_char(Bz, N, ft))
        k1, k2, l1, l2 = P.cnt_lt(A, N, t), P.cnt_le(A, N, t), P.cnt_lt(Bz, N, ft), P.cnt_le(Bz, N, ft)
        idx = [l1, l1 - 1, l2, l2 - 1, k1, k1 - 1, k2, k2 - 1]
        ob(f"lemma-L4-counts-invariant-{nm}", And(l1 == k1, l2 == k2), "lemma", meta={"idx": idx})
    for nm, b in arrs.items():
        A, N = me.attrs[nm].sym
        Bz, _ = b.sym
        path.add(And(P.cnt_lt(Bz, N, ft) == P.cnt_lt(A, N, t), P.cnt_le(Bz, N, ft) == P.cnt_le(A, N, t)))
    mb = Obj("Scores", pos=arrs["pos"], neg=arrs["neg"], nb_easy_pos=me.attrs["nb_easy_pos"], nb_easy_neg=me.attrs["nb_easy_neg"],
             score_class=label(ex, sc), equal_class=label(ex, ec))
    r1, path = run_cm(ex, me, t, path)
    r2, path = run_cm(ex, mb, ft, path)
    c1, c2 = cells(r1), cells(r2)
    for k in c1:
        ob(f"cm-cell{k[0]}{k[1]}-unchanged-at-mapped-threshold", c1[k] == c2[k], hyps=path.pc)
    for so in ex.obligs:
        so.id = f"C08/monotone-map/safety:{so.id}{tag}"
        so.props = ("C08",)
        obs.append(so)
    return obs


# ----------------------------------------------------------------------------------------------------------------
# bounded layer (real code; relations between two executions)

def close(a, b, ulps=16, scale=1.0):
    a, b = np.asarray(a, dtype=float), np.asarray(b, dtype=float)
    return bool(np.all((a == b) | (np.isnan(a) & np.isnan(b)) | (np.abs(a - b) <= ulps * np.spacing(np.maximum(np.maximum(np.abs(a), np.abs(b)), scale)))))


def oracle(case):
    from vf.framework import real_repo
    sa = real_repo()
    dt = int if case.get("int") else float
    pos, neg = np.array(case["pos"], dtype=dt), np.array(case["neg"], dtype=dt)
    sc, ec, ep, en = case["sc"], case["ec"], case["ep"], case["en"]
    s = sa.Scores(pos, neg, nb_easy_pos=ep, nb_easy_neg=en, score_class=sc, equal_class=ec)
    t = B.thresholds_for(list(pos) + list(neg))
    info = f"[pos={case['pos']} neg={case['neg']} easy=({ep},{en}) {sc}/{ec}]"
    cl = case["clause"]
    targets = [-0.1, 0.0, 0.15, 0.3, 0.5, 0.77, 1.0, 1.3]
    if cl == "swap":
        w = s.swap()
        for a, b in (("fpr", "fnr"), ("tpr", "tnr"), ("topr", "tonr"), ("fnr", "fpr"), ("tnr", "tpr"), ("tonr", "topr")):
            x, y = getattr(s, a)(t), getattr(w, b)(t)
            if not np.array_equal(x, y, equal_nan=True):
                return f"swap: {a} of the original {np.asarray(x).tolist()} != {b} of the swapped {np.asarray(y).tolist()} {info}"
        m1, m2 = np.asarray(s.cm(t).matrix), np.asarray(w.cm(t).matrix)
        if not np.array_equal(m2, m1[:, ::-1, ::-1]):
            return f"swap: cm of the swapped object is not the transposed-and-flipped cm {info}"
        return None
    if cl == "negation":
        w = sa.Scores(-pos, -neg, nb_easy_pos=ep, nb_easy_neg=en, score_class=FLIP[sc], equal_class=ec)
        m1, m2 = np.asarray(s.cm(t).matrix), np.asarray(w.cm(-t).matrix)
        if not np.array_equal(m1, m2):
            return f"negation: cm at the negated threshold differs {info}"
        for m in TH.METRICS:
            n_rel = TH.pop_info(dict(case, metric=m))[0]
            if n_rel == 0:
                continue
            a = getattr(s, "threshold_at_" + m)(np.array(targets))
            b = getattr(w, "threshold_at_" + m)(np.array(targets))
            if not close(-a, b):
                return f"negation: threshold_at_{m}{targets} = {a.tolist()} but on the negated object {b.tolist()} (expected the negation) {info}"
        if len(pos) and len(neg) and len(set(list(pos) + list(neg))) == len(pos) + len(neg):
            (t1, e1), (t2, e2) = s.eer(), w.eer()
            rng_ = max(1.0, float(max(list(pos) + list(neg)) - min(list(pos) + list(neg))))
            # the bisection of eer() stops at xtol = 1e-10 on the rate axis
            if not (abs(e1 - e2) <= 1e-9 and abs(-t1 - t2) <= 1e-6 * rng_):
                return f"negation: eer {(t1, e1)} vs {(t2, e2)} on the negated object {info}"
        return None
    if cl == "affine":
        a_, b_ = case["a"], case["b"]
        w = sa.Scores(a_ * pos + b_, a_ * neg + b_, nb_easy_pos=ep, nb_easy_neg=en, score_class=sc, equal_class=ec)
        tt = t[np.isfinite(t)]
        tt = np.array([x for x in tt if x in pos or x in neg or not any(abs(x - v) < 1e-6 for v in list(pos) + list(neg))])   # ulp neighbours do not map exactly
        m1, m2 = np.asarray(s.cm(tt).matrix), np.asarray(w.cm(a_ * tt + b_).matrix)
        if not np.array_equal(m1, m2):
            return f"affine map {a_}*s+{b_}: cm at the mapped threshold differs {info}"
        scale = abs(a_) * max([1.0] + [abs(v) for v in list(pos) + list(neg)]) + abs(b_)
        for m in TH.METRICS:
            if TH.pop_info(dict(case, metric=m))[0] == 0:
                continue
            for meth in TH.METHODS:
                x = getattr(s, "threshold_at_" + m)(np.array(targets), method=meth)
                y = getattr(w, "threshold_at_" + m)(np.array(targets), method=meth)
                if not close(a_ * x + b_, y, 64, scale):
                    return f"affine map {a_}*s+{b_}: threshold_at_{m}(method={meth}) {y.tolist()} is not the image of {x.tolist()} {info}"
        if len(pos) and len(neg):
            for kw in ({}, {"lower": 0.2, "upper": 0.7}, {"x_axis": "fnr", "y_axis": "tnr"}):
                if not close(s.auc(**kw), w.auc(**kw), 256, 1.0):
                    return f"affine map: auc({kw}) {s.auc(**kw)} vs {w.auc(**kw)} {info}"
            if len(set(list(pos) + list(neg))) == len(pos) + len(neg):
                (t1, e1), (t2, e2) = s.eer(), w.eer()
                if not (abs(e1 - e2) <= 1e-9 and abs(a_ * t1 + b_ - t2) <= 1e-6 * scale):
                    return f"affine map: eer {(t1, e1)} vs {(t2, e2)} {info}"
        return None
    if cl == "groupswap":
        g = sa.GroupScores(pos, neg, pos_groups=np.array(case["pg"]), neg_groups=np.array(case["ng"]), score_class=sc, equal_class=ec)
        w = g.swap()
        if not (np.array_equal(w.pos, g.neg) and np.array_equal(w.neg, g.pos) and np.array_equal(w.pos_groups, g.neg_groups)
                and np.array_equal(w.neg_groups, g.pos_groups) and w.score_class == FLIP[sc] and w.equal_class == FLIP[ec]):
            return f"GroupScores.swap does not exchange the classes together with their group labels {info}"
        return None
    raise ValueError(cl)


def replay(case):
    return oracle(case)


def eval_items(items):
    counts, viols = {}, []
    for case in items:
        res = oracle(case)
        c = counts.setdefault(case["clause"], [0, 0])
        c[0] += 1
        c[1] += 1 if (case["pos"] or case["neg"]) else 0
        if res:
            viols.append((case["clause"], f"C08/bounded/{case['clause']}[{case['sc']},{case['ec']}]" + (":" + res.split(":")[1].strip().split(" ")[0] if ":" in res else ""), res, B.jsonable(case)))
    return counts, viols, []


def bounded(chk):
    from vf.framework import run_bounded
    maxn = 4 if chk.tier == "quick" else 5
    easy = [(0, 0), (2, 1)] if chk.tier == "quick" else [(0, 0), (2, 1), (0, 3), (5, 0)]
    items = []
    for pos, neg in B.order_types(maxn):
        for ep, en in easy:
            for sc, ec in B.CONFIGS:
                base = {"pos": pos, "neg": neg, "ep": ep, "en": en, "sc": sc, "ec": ec}
                items.append(dict(base, clause="swap"))
                items.append(dict(base, clause="negation"))
                for a_, b_ in ((2.0, 3.0), (0.5, -4.0)) + (((3.0, 0.25),) if chk.tier == "thorough" else ()):
                    items.append(dict(base, clause="affine", a=a_, b=b_))
                if (ep, en) == easy[0] and len(set(pos + neg)) == len(pos + neg) and pos and neg:
                    # very small / very large scales (tie-free data): absolute tolerances inside the library would show here
                    for a_, b_ in ((1e-4, 0.0), (1e-6, 1.0), (1e5, -3.0)):
                        items.append(dict(base, clause="affine", a=a_, b=b_))
    for sc, ec in B.CONFIGS:
        for pos, neg in (([1, 2, 4], [0, 3]), ([5], [1, 2, 2]), ([-3, -1], [-2])):
            base = {"pos": pos, "neg": neg, "ep": 0, "en": 0, "sc": sc, "ec": ec, "int": True}
            items.append(dict(base, clause="negation"))
            items.append(dict(base, clause="affine", a=2, b=-7))
            items.append(dict(base, clause="swap"))
    for sc, ec in B.CONFIGS:
        items.append({"clause": "groupswap", "pos": [3.0, 1.0, 2.0], "neg": [2.5, 0.5], "pg": ["a", "b", "a"], "ng": ["b", "c"], "ep": 0, "en": 0, "sc": sc, "ec": ec})
    chk.bounded["bound"] = f"all order types of pos+neg <= {maxn}, easy counts {easy}, 4 configurations; thresholds at/around every score and +-inf; 8 targets; affine maps (2,3), (0.5,-4) and, for tie-free data, scales 1e-6 .. 1e5; float tolerance 16 ulp (64 for affine images)"
    chk.bounded["rule"] = "enumerated; each (dataset, configuration, relation) is one case"
    chk.bounded["exhaustive"] = True
    run_bounded(chk, items, eval_items)
    chk.samples.append({"bounded-case": items[40]})


def run(chk):
    prove(chk, build, replay=replay, parts=PARTS)
    bounded(chk)
