"""Shared machinery for the threshold-setting properties C02 / C03 (also used by C08, C09, C15).

Contract of the six public functions  threshold_at_{tpr,fnr,tnr,fpr,topr,tonr}(r, method)  -- written from the property
statements in *count space*:  K = r * N_all  where N_all is the relevant population (easy samples included), the metric's
count at a threshold is given by the documented decision rule (spec function predpos over cnt_lt / cnt_le), never by the
code's own cm().
"""
from z3 import And, BoolVal, If, Implies, Int, IntVal, Not, Or, Real, RealVal, ToInt, ToReal

from vf import bounded as B
from vf import prims as P
from vf.common import mk_scores, new_exec, predpos, run_method
from vf.engine import Oblig, Path, T, toI, toR

METRICS = ["tpr", "fnr", "tnr", "fpr", "topr", "tonr"]
ALIASES = {"tar": "tpr", "frr": "fnr", "trr": "tnr", "far": "fpr", "acceptance_rate": "topr", "rejection_rate": "tonr"}
METHODS = ["linear", "lower", "higher"]


class ThrRun:
    """one symbolic execution of threshold_at_<metric>(r, method) on a symbolic Scores object"""

    def __init__(self, metric, sc, ec, method, sizes=None, strict=False, me=None, ex=None, path=None, r=None, name="", easy_case=None):
        self.metric, self.sc, self.ec, self.method = metric, sc, ec, method
        npos, nneg = sizes[:2] if sizes else (None, None)
        easy = tuple(sizes[2:4]) if sizes and len(sizes) >= 4 else True
        self.ex = ex or new_exec(ground=bool(sizes))
        self.path = path if path is not None else Path()
        if easy_case is not None and not (sizes and len(sizes) >= 4) and me is None:
            ep_, en_ = Int(name + "nb_easy_pos"), Int(name + "nb_easy_neg")
            self.path.add(And(ep_ >= 0, en_ >= 0))
            rel = {"tpr": "p", "fnr": "p", "tnr": "n", "fpr": "n"}.get(metric, "pn")
            if easy_case == "none":
                easy = (0 if "p" in rel else ep_, 0 if "n" in rel else en_)
            else:
                easy = (ep_, en_)
                self.path.add((ep_ if "p" in rel else 0) + (en_ if "n" in rel else 0) > 0)
        self.me = me or mk_scores(self.ex, self.path, sc, ec, npos, nneg, easy=easy, strict=strict, name=name)
        self.r = r if r is not None else Real(name + "r")
        me = self.me
        self.npos, self.nneg = toI(me.attrs["pos"].axes[0].size), toI(me.attrs["neg"].axes[0].size)
        self.ep, self.en = toI(me.attrs["nb_easy_pos"]), toI(me.attrs["nb_easy_neg"])
        # pre-condition: the relevant class is non-empty
        if metric in ("tpr", "fnr"):
            self.path.add(self.npos >= 1)
        elif metric in ("tnr", "fpr"):
            self.path.add(self.nneg >= 1)
        else:
            self.path.add(self.npos + self.nneg >= 1)
        n0 = len(self.ex.obligs)
        nlog = len(self.ex.prim_log)
        nloc = len(self.ex.locals.get("_invert_increasing_function", []))
        self.outs = run_method(self.ex, "Scores", "threshold_at_" + metric, me, [self.r], {"method": method}, path=self.path)
        self.plog = self.ex.prim_log[nlog:]
        inv = self.ex.locals.get("_invert_increasing_function", [])[nloc:]
        self.inv_env = inv[-1][0].env if inv and inv[-1] else None
        self.side = self.ex.obligs[n0:]
        self.live = [o for o in self.outs if not o.raised]
        self.ok = len(self.live) == 1 and len(self.outs) == 1
        if self.ok:
            self.th = self.live[0].value
            self.path = self.live[0].path
            self.scalar_result = not isinstance(self.th, T)
            if isinstance(self.th, T):
                self.th = self.th.elem() if self.th.ndim == 0 else None
        # the array the function thresholds on (for the cnt facts): pos, neg, or the sorted concatenation
        self.P, self.N = me.attrs["pos"], me.attrs["neg"]

    def roles(self):
        """Ghost values of _invert_increasing_function identified by their *role* (parameters by position, the argument of the
        single np.floor call, ...), not by the names of local variables, so that renaming locals or introducing temporaries does not
        disturb the proofs.  KeyError when a role cannot be identified (the proof is then undecided, never a verdict)."""
        from vf.engine import is_sym
        from z3 import If
        ex = self.ex
        if self.inv_env is None:
            raise KeyError("_invert_increasing_function was not called")
        _, fn = ex.find("Scores", "_invert_increasing_function")
        pn = [a.arg for a in fn.args.args if a.arg != "self"]
        if len(pn) < 3:
            raise KeyError("parameters of _invert_increasing_function")
        env = self.inv_env
        scores, rho, lc = env[pn[0]], env[pn[1]], env[pn[2]]
        un0 = lambda v: v.elem() if isinstance(v, T) and v.ndim == 0 else v
        fl = [e_ for e_ in self.plog if e_[0] == "np.floor" and str(e_[3]).endswith("_invert_increasing_function")]
        ce = [e_ for e_ in self.plog if e_[0] == "np.ceil" and str(e_[3]).endswith("_invert_increasing_function")]
        if len(fl) != 1:
            raise KeyError(f"{len(fl)} np.floor calls in _invert_increasing_function")
        target = un0(fl[0][1][0])
        F = toR(un0(fl[0][2]))
        # the right node: np.ceil of the same value if the code computes it that way, else by specification
        Tr = toR(target)
        from z3 import ToInt, ToReal
        C = toR(un0(ce[0][2])) if len(ce) == 1 and toR(un0(ce[0][1][0])).get_id() == Tr.get_id() else If(ToReal(ToInt(Tr)) == Tr, ToReal(ToInt(Tr)), ToReal(ToInt(Tr)) + 1)
        n = toI(scores.axes[0].size)
        clip = lambda v: If(ToInt(v) > n - 1, If(n - 1 < 0, 0, n - 1), If(ToInt(v) < 0, 0, ToInt(v)))
        li, ri, la = clip(F), clip(C), C - Tr
        # prefer the code's own terms (syntactic abstraction in some proofs substitutes them): the two clipped indices are the
        # results of the np.maximum calls; which is which is decided by evaluating them at target = 1/2, n = 10
        import ast as _ast
        from z3 import IntVal, RealVal, simplify, substitute, is_int_value
        try:
            cands = [toI(un0(e_[2])) for e_ in self.plog if e_[0] == "np.maximum" and str(e_[3]).endswith("_invert_increasing_function")]
            found = {}
            for c_ in cands:
                v = simplify(substitute(c_, (Tr, RealVal("1/2")), (n, IntVal(10))))
                if is_int_value(v) and v.as_long() in (0, 1):
                    found.setdefault(v.as_long(), c_)
            if len(cands) == 2 and set(found) == {0, 1}:
                li, ri = found[0], found[1]
            if len(ce) == 1:
                la_code = ex.binop(_ast.Sub(), ce[0][2], fl[0][1][0])
                la = toR(un0(la_code))
        except Exception:
            pass
        return {"scores": scores, "target_ratio": un0(rho), "left_continuous": lc, "target": target, "la": la, "left_idx": li, "right_idx": ri,
                "floor": F, "ceil": C}

    # ---- spec side -------------------------------------------------------------------------------------------
    def add_cnt_facts(self, path, th):
        for a in (self.P, self.N):
            if a.sym is not None:
                path.add(P.cnt_char(a.sym[0], a.sym[1], th))

    def pp(self, arr, th, variant=None):
        """predicted-positive count among arr at threshold th by the documented rule; variant 'below'/'above' gives the
        one-sided limits just below / just above th (independent of equal_class)"""
        cnt = arr.facts["cnt"]
        n = toI(arr.axes[0].size)
        if variant is None:
            return predpos(self.sc, self.ec, arr, th)
        if self.sc == "pos":          # predicted positive: score >= t' for t' just below th: #(s >= th) ; just above: #(s > th)
            return n - cnt(th, True) if variant == "below" else n - cnt(th, False)
        return cnt(th, True) if variant == "below" else cnt(th, False)   # score <= t': just below th: #(s < th); above: #(s <= th)

    def count(self, th, variant=None):
        """numerator of the metric at threshold th"""
        m = self.metric
        pp_p = self.pp(self.P, th, variant)
        pp_n = self.pp(self.N, th, variant)
        return {"tpr": pp_p + self.ep, "fnr": self.npos - pp_p, "tnr": self.nneg - pp_n + self.en, "fpr": pp_n,
                "topr": pp_p + pp_n + self.ep, "tonr": self.npos + self.nneg - pp_p - pp_n + self.en}[m]

    @property
    def n_rel(self):
        return {"tpr": self.npos, "fnr": self.npos, "tnr": self.nneg, "fpr": self.nneg,
                "topr": self.npos + self.nneg, "tonr": self.npos + self.nneg}[self.metric]

    @property
    def n_all(self):
        return {"tpr": self.npos + self.ep, "fnr": self.npos + self.ep, "tnr": self.nneg + self.en, "fpr": self.nneg + self.en,
                "topr": self.npos + self.nneg + self.ep + self.en, "tonr": self.npos + self.nneg + self.ep + self.en}[self.metric]

    @property
    def lo_c(self):
        return {"tpr": self.ep, "fnr": IntVal(0), "tnr": self.en, "fpr": IntVal(0), "topr": self.ep, "tonr": self.en}[self.metric]

    @property
    def hi_c(self):
        return self.lo_c + self.n_rel

    def clipK(self, r=None):
        r = self.r if r is None else r
        K = r * ToReal(self.n_all)
        lo, hi = ToReal(self.lo_c), ToReal(self.hi_c)
        return If(K < lo, lo, If(K > hi, hi, K))

    def case(self, m, extra=None):
        """concrete replay case from a ground model"""
        from vf.proof import fval
        pos = [fval(m, a) for a in (self.P.items or [])]
        neg = [fval(m, a) for a in (self.N.items or [])]
        c = {"metric": self.metric, "sc": self.sc, "ec": self.ec, "method": self.method,
             "pos": [float(v) for v in pos], "neg": [float(v) for v in neg],
             "ep": int(fval(m, toI(self.ep))), "en": int(fval(m, toI(self.en))), "r": float(fval(m, self.r)),
             "r_exact": str(fval(m, self.r))}
        if extra:
            c.update(extra)
        return c


def metric_dir(metric, sc):
    """+1 if the metric is non-decreasing in the threshold, -1 otherwise (from the decision rule)"""
    inc = metric in ("fnr", "tnr", "tonr")
    if sc == "neg":
        inc = not inc
    return 1 if inc else -1


# ----------------------------------------------------------------------------------------------------------------
# executable renderings (bounded layer + replay); exact rational arithmetic for the expectations

def real_scores(case):
    from vf.framework import real_repo
    sa = real_repo()
    import numpy as np
    dt = np.dtype(case["dtype"]) if case.get("dtype") else (int if case.get("int") else float)
    return sa.Scores(np.asarray(case["pos"], dtype=dt), np.asarray(case["neg"], dtype=dt), nb_easy_pos=case["ep"], nb_easy_neg=case["en"],
                     score_class=case["sc"], equal_class=case["ec"])


def counts_at(case, th, variant=None):
    """metric numerator at th by brute force from the decision rule (variant: one-sided limits)"""
    import numpy as np
    pos, neg, sc, ec = case["pos"], case["neg"], case["sc"], case["ec"]

    def pp(arr):
        if variant is None:
            return sum(1 for s in arr if B.rule(sc, ec, s, th))
        if sc == "pos":
            return sum(1 for s in arr if (s >= th if variant == "below" else s > th))
        return sum(1 for s in arr if (s < th if variant == "below" else s <= th))
    ppp, ppn = pp(pos), pp(neg)
    ep, en = case["ep"], case["en"]
    return {"tpr": ppp + ep, "fnr": len(pos) - ppp, "tnr": len(neg) - ppn + en, "fpr": ppn,
            "topr": ppp + ppn + ep, "tonr": len(pos) + len(neg) - ppp - ppn + en}[case["metric"]]


def pop_info(case):
    pos, neg, ep, en, m = case["pos"], case["neg"], case["ep"], case["en"], case["metric"]
    n_rel = {"tpr": len(pos), "fnr": len(pos), "tnr": len(neg), "fpr": len(neg), "topr": len(pos) + len(neg), "tonr": len(pos) + len(neg)}[m]
    e_all = {"tpr": ep, "fnr": ep, "tnr": en, "fpr": en, "topr": ep + en, "tonr": ep + en}[m]
    lo = {"tpr": ep, "fnr": 0, "tnr": en, "fpr": 0, "topr": ep, "tonr": en}[m]
    return n_rel, n_rel + e_all, lo, lo + n_rel
