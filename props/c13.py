"""C13 -- bootstrap confidence limits follow the documented quantile / BC / BCa formulas (function against spec function).

utils.bootstrap_ci is executed symbolically on replicates theta of shape (N, Y) / (N,) (N, Y symbolic; every replicate carries a
NaN tag), estimate theta_hat of shape (Y,) / (), alpha scalar or of shape (Z,) (quantile method).  The per-component result must be
*equal* to the documented formula written independently below over the same uninterpreted symbols
    nanq(column, q)     NaN-ignoring empirical quantile           Phi / PhiInv   standard normal cdf / quantile
    sum / nansum / pow  reductions and powers
so that 'factor 2 dropped', 'acceleration denominator halved', '<' for '<=' are refutable.  Derived claims (limits ordered, nested
in alpha) are lemmas over the assumed contracts of nanquantile (monotone in q) and the normal cdf (increasing).
"""
import numpy as np
from z3 import And, BoolVal, Function, If, Implies, Int, IntSort, Lambda, Not, Or, Real, RealSort, RealVal, BoolSort

from vf import bounded as B
from vf import prims as P
from vf import prims_ext as PX
from vf.common import multi_path_meta, new_exec, run_function
from vf.engine import FV, UF, ArrS, Axis, Oblig, Path, T, same_size, toB, toI, toR
from vf.proof import prove

LEVEL = "proof"


def sym_inputs(ex, path, y_shape, alpha_shape):
    N = Int("N")
    path.add(N >= 1)
    NA = Axis("N", N)
    Th = Function("Theta", IntSort(), IntSort(), RealSort())
    ThN = Function("ThetaNaN", IntSort(), IntSort(), BoolSort())
    Hat = Function("Hat", IntSort(), RealSort())
    if y_shape == "Y":
        Y = Axis("Y", Int("Ysize"))
        path.add(toI(Y.size) >= 1)
        theta = T((NA, Y), lambda i, y: FV(Th(toI(i), toI(y)), ThN(toI(i), toI(y))), prov="param:theta")
        hat = T((Y,), lambda y: Hat(toI(y)), prov="param:theta_hat")
    else:
        Y = None
        theta = T((NA,), lambda i: FV(Th(toI(i), 0), ThN(toI(i), 0)), prov="param:theta")
        hat = Hat(0)
    if alpha_shape == "Z":
        Z = Axis("Z", Int("Zsize"))
        AL = Function("Alpha", IntSort(), RealSort())
        alpha = T((Z,), lambda z: AL(toI(z)), prov="param:alpha")
    else:
        Z = None
        alpha = Real("alpha")
    return theta, hat, alpha, (N, Y, Z, Th, ThN, Hat)


# ---- the documented formulas (Efron & Hastie ch. 11), independent of the code --------------------------------------

def spec_not_nan(N, y, ThN):
    """number of finite replicates of component y"""
    sumr = UF("sum_red", ArrS, IntSort(), RealSort())
    return sumr(P.canon_lambda(lambda i: If(Not(ThN(i, y)), RealVal(1), RealVal(0))), N)


def spec_limit(method, N, y, a, upper, Th, ThN, Hat):
    L = P.canon_lambda
    col = L(lambda i: Th(i, y))
    colnan = L(lambda i: ThN(i, y))
    q_plain = (1 - a / 2) if upper else a / 2
    if method == "quantile":
        return PX.nanq(col, colnan, N, q_plain)
    sumr = UF("sum_red", ArrS, IntSort(), RealSort())
    nsum = UF("nansum_red", ArrS, PX.BArrS, IntSort(), RealSort())
    pw = UF("pow", RealSort(), RealSort(), RealSort())
    not_nan = sumr(L(lambda i: If(Not(ThN(i, y)), RealVal(1), RealVal(0))), N)
    below = sumr(L(lambda i: If(And(Not(ThN(i, y)), Th(i, y) <= Hat(y)), RealVal(1), RealVal(0))), N)
    p0 = below / not_nan                     # fraction of (finite) replicates not exceeding the estimate
    z0 = P.PhiInv(p0)
    za = P.PhiInv(q_plain)
    if method == "bc":
        return PX.nanq(col, colnan, N, P.Phi(2 * z0 + za))
    d = lambda k: Th(k, y) - Hat(y)
    a_num = nsum(L(lambda i: d(i) * d(i) * d(i)), colnan, N)
    a_den = 6 * pw(nsum(L(lambda i: d(i) * d(i)), colnan, N), RealVal("3/2"))
    acc = If(a_den != 0, a_num / a_den, RealVal(0))
    s_ = z0 + za
    z = If(PX.isfinite_uf(z0), z0 + s_ / (1 - acc * s_), z0)
    return PX.nanq(col, colnan, N, P.Phi(z))


def build(sizes=None, only=None, part=None):
    obs = []
    if sizes is not None:
        return obs
    combos = [("quantile", "Y", "scalar"), ("quantile", "Y", "Z"), ("quantile", "scalar", "scalar"), ("quantile", "scalar", "Z"),
              ("bc", "Y", "scalar"), ("bc", "scalar", "scalar"), ("bca", "Y", "scalar"), ("bca", "scalar", "scalar")]
    for method, ysh, ash in combos:
        if part is not None and part != method:
            continue
        try:
            obs += build_one(method, ysh, ash)
        except Exception as e:
            import os
            if os.environ.get("VERIF_DEBUG"):
                import traceback
                traceback.print_exc()
            obs.append(Oblig(f"C13/{method}/executes[{ysh},{ash}]", [], BoolVal(False), "post", ("C13",), {"engine_error": f"{type(e).__name__}: {e}"}))
    if part in (None, "misc"):
        obs += build_errors() + lemmas()
    return obs


PARTS = ["quantile", "bc", "bca", "misc"]


def build_one(method, ysh, ash):
    obs = []
    tag = f"[{method},theta=(N,{'Y' if ysh == 'Y' else ''}),alpha={'(Z,)' if ash == 'Z' else 'scalar'}]"
    ex = new_exec()
    path = Path()
    theta, hat, alpha, (N, Y, Z, Th, ThN, Hat) = sym_inputs(ex, path, ysh, ash)
    outs = run_function(ex, "utils", "bootstrap_ci", [theta], {"theta_hat": hat, "alpha": alpha, "method": method}, path=path)
    live = [o for o in outs if not o.raised]

    def ob(name, goal, hyps, kind="post", meta=None):
        obs.append(Oblig(f"C13/{method}/{name}{tag}", hyps, goal, kind, ("C13",), dict({"key": f"C13/{method}/{name}"}, **(meta or {}))))
    ob("single-normal-path", BoolVal(len(live) == 1 and len(outs) == 1), [], "post", multi_path_meta(outs))
    if len(live) != 1:
        return obs
    res, hy = live[0].value, live[0].path.pc
    want_axes = ([Y] if Y is not None else []) + ([Z] if Z is not None else [])
    ok = isinstance(res, T) and res.ndim == len(want_axes) + 1 and res.axes[-1].size == 2 and \
        all(same_size(a.size, w.size) for a, w in zip(res.axes[:-1], want_axes))
    ob("shape=metric_shape+alpha_shape+(2,)", BoolVal(bool(ok)), [], "shape")
    if not ok:
        return obs
    y, z = Int("y"), Int("z")
    from z3 import IntVal
    if Y is None:
        y = IntVal(0)
    rng_ = ([And(0 <= y, y < toI(Y.size))] if Y is not None else []) + ([And(0 <= z, z < toI(Z.size))] if Z is not None else [])
    idx = ([y] if Y is not None else []) + ([z] if Z is not None else [])
    a = alpha.elem(z) if Z is not None else alpha
    # bc / bca: the documented formula needs the fraction of finite replicates not exceeding the estimate, which is defined only when the
    # component has at least one finite replicate ("NaNs ignored"); a component without any is covered by the bounded layer (NaN limits)
    has_data = [spec_not_nan(N, y, ThN) != 0] if method != "quantile" else []
    for b, nm in ((0, "lower"), (1, "upper")):
        got = toR(res.elem(*idx, b))
        ob(f"{nm}-limit-equals-the-documented-formula", got == spec_limit(method, N, y, a, bool(b), Th, ThN, Hat), hy + rng_ + has_data)
    # per-component independence: (structural) the loop over the components is a map loop / the vectorised reductions are along
    # the replicate axis only -- recorded by the engine (a non-independent loop raises Unsupported)
    for so in ex.obligs:
        so.id = f"C13/{method}/safety:{so.id}#{len(obs)}{tag}"
        so.props = ("C13",)
        obs.append(so)
    bad = [s for s in ex.stores if not (s[1] == "fresh" or s[1].startswith("view:fresh"))]
    ob("frame-no-store-into-arguments", BoolVal(not bad), [], "frame", {"stores": [str(b) for b in bad]})
    return obs


def build_errors():
    obs = []
    for method, hat, want in (("bc", None, True), ("bca", None, True), ("nonsense", 0.5, True)):
        ex = new_exec()
        path = Path()
        theta, _, alpha, _ = sym_inputs(ex, path, "Y", "scalar")
        try:
            outs = run_function(ex, "utils", "bootstrap_ci", [theta], {"theta_hat": hat, "alpha": alpha, "method": method}, path=path)
            ok = bool(outs) and all(o.raised and "ValueError" in str(o.value.exc) for o in outs)
            obs.append(Oblig(f"C13/errors/ValueError[{method},theta_hat={'None' if hat is None else 'given'}]", [], BoolVal(ok), "post", ("C13",)))
        except Exception as e:
            obs.append(Oblig(f"C13/errors/ValueError[{method}]", [], BoolVal(False), "post", ("C13",), {"engine_error": f"{type(e).__name__}: {e}"}))
    return obs


def lemmas():
    """derived claims as lemmas over the assumed contracts: nanq non-decreasing in q; Phi increasing; PhiInv increasing"""
    obs = []
    col, cn, n = __import__("z3").Const("col!L", ArrS), __import__("z3").Const("cn!L", PX.BArrS), Int("n!L")
    q1, q2, a1, a2, z0 = Real("q1!L"), Real("q2!L"), Real("a1!L"), Real("a2!L"), Real("z0!L")
    nanq_mono = lambda u, v: Implies(u <= v, PX.nanq(col, cn, n, u) <= PX.nanq(col, cn, n, v))
    phi_mono = lambda u, v: Implies(u <= v, P.Phi(u) <= P.Phi(v))
    phinv_mono = lambda u, v: Implies(u <= v, P.PhiInv(u) <= P.PhiInv(v))
    al = Real("alpha!L")
    obs.append(Oblig("C13/lemma/quantile-limits-ordered", [0 < al, al < 1, nanq_mono(al / 2, 1 - al / 2)],
                     PX.nanq(col, cn, n, al / 2) <= PX.nanq(col, cn, n, 1 - al / 2), "lemma", ("C13",)))
    lo, hi = P.Phi(2 * z0 + P.PhiInv(al / 2)), P.Phi(2 * z0 + P.PhiInv(1 - al / 2))
    obs.append(Oblig("C13/lemma/bc-limits-ordered", [0 < al, al < 1, phinv_mono(al / 2, 1 - al / 2), phi_mono(2 * z0 + P.PhiInv(al / 2), 2 * z0 + P.PhiInv(1 - al / 2)), nanq_mono(lo, hi)],
                     PX.nanq(col, cn, n, lo) <= PX.nanq(col, cn, n, hi), "lemma", ("C13",)))
    obs.append(Oblig("C13/lemma/quantile-nested-in-alpha", [0 < a1, a1 <= a2, a2 < 1, nanq_mono(a1 / 2, a2 / 2), nanq_mono(1 - a2 / 2, 1 - a1 / 2)],
                     And(PX.nanq(col, cn, n, a1 / 2) <= PX.nanq(col, cn, n, a2 / 2), PX.nanq(col, cn, n, 1 - a2 / 2) <= PX.nanq(col, cn, n, 1 - a1 / 2)), "lemma", ("C13",)))
    return obs


# ----------------------------------------------------------------------------------------------------------------
# bounded layer: independent NumPy/SciPy transcription of the documented formulas

def reference(theta, hat, alpha, method):
    import scipy.stats as st
    theta = np.asarray(theta, dtype=float)
    yshape = theta.shape[1:]
    th = theta.reshape(theta.shape[0], -1)
    ht = None if hat is None else np.asarray(hat, dtype=float).reshape(-1)
    out = np.empty((th.shape[1], 2))
    for j in range(th.shape[1]):
        col = th[:, j]
        fin = col[~np.isnan(col)]
        if method == "quantile":
            qs = [alpha / 2, 1 - alpha / 2]
        else:
            with np.errstate(all="ignore"):
                p0 = np.sum(fin <= ht[j]) / len(fin)
                z0 = st.norm.ppf(p0)
                za = [st.norm.ppf(alpha / 2), st.norm.ppf(1 - alpha / 2)]
                if method == "bc":
                    zs = [2 * z0 + v for v in za]
                else:
                    d = fin - ht[j]
                    den = 6 * np.sum(d ** 2) ** 1.5
                    acc = np.sum(d ** 3) / den if den != 0 else 0.0
                    zs = [z0 + (z0 + v) / (1 - acc * (z0 + v)) if np.isfinite(z0) else z0 for v in za]
                qs = [st.norm.cdf(v) for v in zs]
        out[j] = [np.quantile(fin, q) if len(fin) else np.nan for q in qs]
    return out.reshape(yshape + (2,))


def pole_crossed(theta, hat, alpha):
    """|a (z0 + z_alpha)| >= 1 on some tail of some component: the ordering / nesting claims are not made there"""
    import scipy.stats as st
    N = theta.shape[0]
    th, ht = theta.reshape(N, -1), np.asarray(hat, dtype=float).reshape(-1)
    for j in range(th.shape[1]):
        fin = th[:, j][~np.isnan(th[:, j])]
        if not len(fin):
            continue
        with np.errstate(all="ignore"):
            z0 = st.norm.ppf(np.sum(fin <= ht[j]) / len(fin))
            d = fin - ht[j]
            den = 6 * np.sum(d ** 2) ** 1.5
            acc = np.sum(d ** 3) / den if den != 0 else 0.0
        if np.isfinite(z0) and any(abs(acc * (z0 + st.norm.ppf(q))) >= 1 - 1e-9 for q in (alpha / 2, 1 - alpha / 2)):
            return True
    return False


def oracle(case):
    from vf.framework import real_repo
    real_repo()
    from score_analysis.utils import bootstrap_ci
    case = dict(case)
    case.pop("_pole", None)
    rng = np.random.RandomState(case["seed"])
    N, yshape, kind, method = case["N"], tuple(case["yshape"]), case["kind"], case["method"]
    shape = (N,) + yshape
    if kind == "normal":
        theta = rng.normal(size=shape)
    elif kind == "discrete":
        theta = rng.choice([0.0, 0.25, 0.5, 1.0], size=shape)
    elif kind == "constant":
        theta = np.full(shape, 0.3)
    elif kind == "skewed":
        theta = rng.exponential(size=shape) ** 2
    elif kind == "tiny":
        theta = 1e-5 * rng.exponential(size=shape)
    elif kind == "outlier":
        # one dominant outlier per component (|a| close to 1/6), the rest on one side of the estimate 0: with a tiny alpha the
        # acceleration term crosses its pole, where only agreement with the documented formula is claimed
        theta = rng.uniform(0.1, 1.0, size=shape) * (1 if case["seed"] % 2 == 0 else -1)
        theta[0] = -1000.0 * (1 if case["seed"] % 2 == 0 else -1)
    else:
        theta = rng.normal(size=shape)
    if case.get("nan") and N > 2:
        m = rng.rand(*shape) < 0.25
        m[0] = False
        theta = np.where(m, np.nan, theta)
    if case.get("theta_dtype"):
        # replicates of a narrower dtype than the estimate: the comparison `replicate <= estimate` is between the stored values and the
        # float64 estimate (no rounding of the estimate to the replicates' dtype)
        if case["theta_dtype"] == "float32":
            theta = rng.choice(np.array([0.1, 0.3, 0.3, 0.7], dtype=np.float32), size=shape)
        else:
            theta = rng.randint(-4, 5, size=shape)
    if case.get("empty_component"):
        # one metric component (or the only one) without any finite replicate: its limits are NaN, the others are unaffected
        theta = np.array(theta, dtype=float)
        theta.reshape(N, -1)[:, 0] = np.nan
    hat_kind = case.get("hat", "median")
    with np.errstate(all="ignore"):
        hat = np.full(yshape, 0.3) if hat_kind == "0.3" else np.full(yshape, -2.5) if hat_kind == "-2.5" else np.zeros(yshape) if hat_kind == "zero" else np.nanmedian(theta, axis=0) if hat_kind == "median" else (np.nanmax(theta, axis=0) + 1.0 if hat_kind == "above" else np.nanmin(theta, axis=0) - 1.0 if hat_kind == "below" else theta[0])
    info = f"[method={method} N={N} Y={yshape} data={kind} nan={case.get('nan')} hat={hat_kind} seed={case['seed']}]"
    alphas = case["alphas"]
    res = {}
    for al in alphas:
        with np.errstate(all="ignore"):
            got = bootstrap_ci(theta, hat if method != "quantile" else None, al, method=method)
            exp = reference(theta, hat, al, method)
        if np.asarray(got).shape != yshape + (2,):
            return f"shape {np.asarray(got).shape}, expected {yshape + (2,)} {info}"
        tol = 1e-6 if case.get("theta_dtype") == "float32" else 1e-12          # float32 replicates: the quantile interpolation runs in float32
        if not np.allclose(got, exp, rtol=tol, atol=tol, equal_nan=True):
            return f"limits {np.asarray(got).tolist()} differ from the documented formula {exp.tolist()} (alpha={al}) {info}"
        res[al] = np.asarray(got)
        if case.get("theta_dtype"):
            continue          # narrow-dtype cases check agreement with the formula only (the derived clauses are float64 statements)
        lo, hi = np.asarray(got)[..., 0], np.asarray(got)[..., 1]
        with np.errstate(all="ignore"):
            mn, mx = np.nanmin(theta, axis=0), np.nanmax(theta, axis=0)
        pole = method == "bca" and pole_crossed(theta, hat, al)
        case["_pole"] = case.get("_pole") or pole
        if np.any(lo < mn - 1e-15) or np.any(hi > mx + 1e-15) or np.any(hi < mn - 1e-15) or np.any(lo > mx + 1e-15) or (not pole and np.any(lo > hi + 1e-15)):
            return f"limits not ordered / outside the range of the finite replicates (alpha={al}) {info}"
        # reordering, affine equivariance, per-component independence
        perm = rng.permutation(N)
        with np.errstate(all="ignore"):
            g2 = bootstrap_ci(theta[perm], hat if method != "quantile" else None, al, method=method)
            g3 = bootstrap_ci(2.0 * np.asarray(theta, dtype=float) + 1.0, (2.0 * hat + 1.0) if method != "quantile" else None, al, method=method)
        if not np.allclose(g2, got, rtol=1e-12, atol=1e-12, equal_nan=True):
            return f"limits change when the replicates are reordered (alpha={al}) {info}"
        if not np.allclose(g3, 2.0 * np.asarray(got) + 1.0, rtol=1e-9, atol=1e-9, equal_nan=True):
            return f"limits not equivariant under theta -> 2 theta + 1 (alpha={al}) {info}"
        if yshape:
            with np.errstate(all="ignore"):
                first = bootstrap_ci(theta.reshape(N, -1)[:, 0], (np.asarray(hat).reshape(-1)[0]) if method != "quantile" else None, al, method=method)
            if not np.allclose(first, np.asarray(got).reshape(-1, 2)[0], rtol=1e-12, atol=1e-12, equal_nan=True):
                return f"component 0 computed jointly differs from component 0 computed alone (alpha={al}) {info}"
    if method == "quantile" and len(alphas) > 1:
        with np.errstate(all="ignore"):
            joint = bootstrap_ci(theta, None, np.array(alphas), method="quantile")
        if np.asarray(joint).shape != yshape + (len(alphas), 2):
            return f"vector alpha: shape {np.asarray(joint).shape}, expected {yshape + (len(alphas), 2)} {info}"
        for k, al in enumerate(alphas):
            if not np.allclose(np.asarray(joint)[..., k, :], res[al], rtol=1e-12, atol=1e-12, equal_nan=True):
                return f"vector alpha: entry {k} differs from the scalar call {info}"
    als = sorted(alphas)
    if (method != "bca" or N <= 500) and not case.get("_pole") and not case.get("theta_dtype"):
        for a1, a2 in zip(als, als[1:]):
            w1, w2 = res[a1], res[a2]
            if np.any(w1[..., 0] > w2[..., 0] + 1e-12) or np.any(w2[..., 1] > w1[..., 1] + 1e-12):
                return f"interval for alpha={a2} is not nested in the interval for alpha={a1} {info}"
    return None


def replay(case):
    return oracle(case)


def eval_items(items):
    counts, viols = {"bootstrap_ci": [0, 0]}, []
    for case in items:
        import warnings
        try:
            with warnings.catch_warnings():
                warnings.simplefilter("ignore")          # "All-NaN slice" of np.nanquantile on a component without finite replicates
                res = oracle(case)
        except Exception as e:
            res = f"bootstrap_ci raised {type(e).__name__}: {e} for {case}"
        counts["bootstrap_ci"][0] += 1
        counts["bootstrap_ci"][1] += 1
        if res:
            kind = "formula" if "documented formula" in res else "shape" if "shape" in res else "nested" if "nested" in res else \
                "ordered-range" if "ordered" in res else "reorder" if "reordered" in res else "affine" if "equivariant" in res else "component" if "component" in res else "other"
            viols.append(("bootstrap_ci", f"C13/bounded/{case['method']}/{kind}", res, B.jsonable(case)))
    return counts, viols, []


def bounded(chk):
    from vf.framework import run_bounded
    items = []
    seeds = range(2 if chk.tier == "quick" else 6)
    for method in ("quantile", "bc", "bca"):
        for N in (1, 2, 7, 40, 200):
            for yshape in ((), (3,), (2, 2)):
                for kind in ("normal", "discrete", "constant", "skewed", "tiny"):
                    for nan in (False, True):
                        for hat in ("median", "first") + (("above", "below") if kind == "normal" else ()):
                            for seed in seeds:
                                items.append({"method": method, "N": N, "yshape": list(yshape), "kind": kind, "nan": nan, "hat": hat,
                                              "seed": chk.seed * 1000 + seed, "alphas": [0.01, 0.05, 0.3]})
    for method in ("bc", "bca"):
        for N in (12, 50):
            for yshape in ((), (2,)):
                for nan in (False, True):
                    for seed in range(4):
                        items.append({"method": method, "N": N, "yshape": list(yshape), "kind": "outlier", "nan": nan, "hat": "zero", "seed": chk.seed * 1000 + seed,
                                      "alphas": [1e-6, 1e-5, 0.05]})
    for method in ("quantile", "bc", "bca"):
        for N in (1, 5):
            for yshape in ((), (3,), (2, 2)):
                for hat in ("median", "first"):
                    items.append({"method": method, "N": N, "yshape": list(yshape), "kind": "normal", "nan": False, "hat": hat, "seed": chk.seed * 1000 + 7,
                                  "alphas": [0.05, 0.3], "empty_component": True})
    for method in ("bc", "bca"):
        for yshape in ((), (2,)):
            for seed in range(3):
                items.append({"method": method, "N": 9, "yshape": list(yshape), "kind": "normal", "nan": False, "hat": "0.3", "seed": chk.seed * 1000 + seed, "alphas": [0.1, 0.3], "theta_dtype": "float32"})
                items.append({"method": method, "N": 9, "yshape": list(yshape), "kind": "normal", "nan": False, "hat": "-2.5", "seed": chk.seed * 1000 + seed, "alphas": [0.1, 0.3], "theta_dtype": "int64"})
    chk.bounded["bound"] = "float32 and integer replicates with a float64 estimate; a metric component without any finite replicate (limits NaN, other components unaffected); outlier-laden data with alpha down to 1e-6 (acceleration term beyond its pole: formula agreement only); N in {1,2,7,40,200} replicates; metric shapes (), (3,), (2,2); normal / discrete / constant / skewed / tiny-scale data, with and without 25% NaNs; estimate at the median, a replicate, above or below all; alphas 0.01, 0.05, 0.3 (scalar and vector); seeded"
    chk.bounded["rule"] = "grid x seeds; compared with an independent NumPy/SciPy transcription of the documented formulas"
    run_bounded(chk, items, eval_items)
    chk.samples.append({"bounded-case": items[101]})


def run(chk):
    prove(chk, build, replay=replay, parts=PARTS)
    bounded(chk)
    chk.extra["assumptions"] = ["np.nanquantile, scipy.stats.norm.cdf/ppf, np.sum/np.nansum over the replicate axis and ** 1.5 are uninterpreted symbols: the proof shows the code computes the documented *expression*; ordering / nesting are lemmas over the assumed monotonicity contracts; numeric agreement is the bounded layer"]
