import argparse
import os
import sys

sys.path.insert(0, os.path.dirname(os.path.dirname(os.path.abspath(__file__))))
sys.setrecursionlimit(20000)


def main():
    ap = argparse.ArgumentParser()
    ap.add_argument("pid", nargs="?")
    ap.add_argument("--tier", default=os.environ.get("VERIF_TIER", "quick"), choices=["quick", "thorough"])
    ap.add_argument("--replay")
    a = ap.parse_args()
    from vf import framework
    if a.replay:
        sys.exit(framework.replay(a.replay))
    seed = int(os.environ.get("VERIF_SEED", "0"))
    if not os.path.isdir(os.path.join(framework.REPO, "score_analysis")):
        print(f"cannot explore: {framework.REPO}/score_analysis missing")
        sys.exit(2)
    sys.exit(framework.run_property(a.pid.upper(), a.tier, seed))


if __name__ == "__main__":
    main()
