"""Primitive contracts: NumPy / SciPy / builtins are not executed symbolically, they are primitives with *assumed*
contracts (DESIGN.md 4.4).  Every entry is listed in the evidence `trusted_base` when it is used by a run.

A primitive is `f(ex, path, *args, **kw) -> value`; pre-conditions become obligations (`ex.oblige`), post-conditions
become path-scoped facts (`path.add`).
"""
import ast
from fractions import Fraction

from z3 import (And, Array, ArraySort, BoolSort, BoolVal, ForAll, If, Implies, Int, IntSort, IntVal, IsInt, Lambda,
                MultiPattern, Not, Or, Real, RealSort, RealVal, Select, Sum, ToInt, ToReal, is_int, simplify)

from .engine import (FV, INF, NINF, UF, ArrS, Axis, EnumVal, Obj, PyRaise, T, Unsupported, b_and, b_not, b_or, boollike,
                     broadcast, intlike, is_scalar, is_sym, ite, lift, nan_of, pyint, scalar_binop, scalar_cmp, toB, toI,
                     toR)

USED = set()          # names of primitive contracts used by the current process (for the evidence)


def prim(name, is_property=False):
    def deco(f):
        def g(ex, path, *a, **k):
            USED.add(name)
            return f(ex, path, *a, **k)
        g.is_property = is_property
        g.__name__ = f.__name__
        PRIMS[name] = g
        return g
    return deco


PRIMS = {}

# ----------------------------------------------------------------------------------------------------------------
# spec functions (ghost)
cnt_lt = UF("cnt_lt", ArrS, IntSort(), RealSort(), IntSort())      # number of elements  < v  among the first n
cnt_le = UF("cnt_le", ArrS, IntSort(), RealSort(), IntSort())      # number of elements <= v
isfloat = UF("isfloat", RealSort(), BoolSort())
nxt_dn = UF("nextafter_dn", RealSort(), RealSort())
nxt_up = UF("nextafter_up", RealSort(), RealSort())


def sorted_formula(A, n):
    i, j = Int("i!s"), Int("j!s")
    return ForAll([i, j], Implies(And(0 <= i, i <= j, j < n), A[i] <= A[j]), patterns=[MultiPattern(A[i], A[j])])


def strictly_sorted_formula(A, n):
    i, j = Int("i!s"), Int("j!s")
    return ForAll([i, j], Implies(And(0 <= i, i < j, j < n), A[i] < A[j]), patterns=[MultiPattern(A[i], A[j])])


def float_formula(A):
    i = Int("i!f")
    return ForAll([i], isfloat(A[i]), patterns=[A[i]])


def cnt_char(A, n, v):
    """L1 instance (counting lemma for an ascending array): prefix characterisation of cnt_lt / cnt_le at value v"""
    i = Int("i!c")
    k1, k2 = cnt_lt(A, n, v), cnt_le(A, n, v)
    return And(0 <= k1, k1 <= k2, k2 <= n,
               ForAll([i], Implies(And(0 <= i, i < k1), A[i] < v), patterns=[A[i]]),
               ForAll([i], Implies(And(k1 <= i, i < n), A[i] >= v), patterns=[A[i]]),
               ForAll([i], Implies(And(0 <= i, i < k2), A[i] <= v), patterns=[A[i]]),
               ForAll([i], Implies(And(k2 <= i, i < n), A[i] > v), patterns=[A[i]]))


def cnt_mono(A, n, v, w):
    """L3 instance"""
    return And(Implies(v <= w, And(cnt_lt(A, n, v) <= cnt_lt(A, n, w), cnt_le(A, n, v) <= cnt_le(A, n, w))),
               Implies(v < w, cnt_le(A, n, v) <= cnt_lt(A, n, w)),
               Implies(w <= v, And(cnt_lt(A, n, w) <= cnt_lt(A, n, v), cnt_le(A, n, w) <= cnt_le(A, n, v))),
               Implies(w < v, cnt_le(A, n, w) <= cnt_lt(A, n, v)))


def sel(items, i):
    """element of a ground list at a python / symbolic index"""
    if pyint(i):
        return items[i]
    if not items:
        return RealVal(0)
    res = items[-1]
    for k in range(len(items) - 2, -1, -1):
        res = ite(toI(i) == k, items[k], res)
    return res


def mk_array(ex, path, name, n=None, ascending=False, strict=False, floats=True, prov=None, min_len=0, kind="real", exact_name=None):
    """fresh 1-D array value.  n=None: symbolic length (z3 Array + Int);  n=int: ground array of that length."""
    if n is None or not pyint(n):
        A = Array(exact_name or f"{name}!{next(ex.fresh)}", IntSort(), RealSort())
        N = Int(f"{name}_len!{next(ex.fresh)}") if n is None else n
        t = T((Axis(name, N),), lambda i: A[toI(i)], kind=kind, prov=prov or "fresh", sym=(A, N))
        path.add(N >= min_len)
        if ascending:
            path.add(strictly_sorted_formula(A, N) if strict else sorted_formula(A, N))
            t.facts["sorted"] = True
        if floats:
            path.add(float_formula(A))
        t.facts["cnt"] = lambda v, strict_, A=A, N=N: (cnt_lt if strict_ else cnt_le)(A, N, toR(v))
        return t
    items = [ex.new_real(f"{name}{k}") for k in range(n)]
    if floats:
        ex.ground_floats = getattr(ex, "ground_floats", []) + items
    t = T((Axis(name, n),), lambda i: sel(items, i), kind=kind, prov=prov or "fresh", items=items)
    if ascending:
        for a, b in zip(items, items[1:]):
            path.add(a < b if strict else a <= b)
        t.facts["sorted"] = True
    t.facts["cnt"] = lambda v, strict_, items=items: ground_cnt(items, v, strict_)
    return t


def ground_cnt(items, v, strict):
    if not items:
        return IntVal(0)
    return Sum([If((toR(a) < toR(v)) if strict else (toR(a) <= toR(v)), 1, 0) for a in items])


def items_of(t):
    """python list of elements when the leading axis is concrete"""
    if t.items is not None:
        return list(t.items)
    if t.ndim == 1 and t.axes[0].concrete():
        return [t.elem(k) for k in range(t.axes[0].size)]
    return None


def as_tensor(ex, path, x):
    if isinstance(x, T):
        return x
    if hasattr(x, "as_tensor"):
        return x.as_tensor()
    if is_scalar(x):
        return T((), lambda: x, kind="bool" if boollike(x) else ("int" if intlike(x) else "real"))
    if isinstance(x, (list, tuple)):
        return from_list(ex, path, list(x))
    raise Unsupported(f"asarray of {type(x).__name__}")


def from_list(ex, path, lst):
    if lst and all(isinstance(r, (list, tuple, T)) for r in lst):
        rows = [as_tensor(ex, path, r) for r in lst]
        axes0, fns = broadcast(*rows)
        ax = Axis(str(len(rows)), len(rows))
        return T((ax,) + axes0, lambda i, *r: sel([f(*r) for f in fns], i), kind=rows[0].kind)
    vals = list(lst)
    if not all(is_scalar(v) or isinstance(v, (Fraction, str, EnumVal)) for v in vals):
        raise Unsupported("array from heterogeneous list")
    kind = "real"
    if vals and all(boollike(v) for v in vals):
        kind = "bool"
    elif vals and all(intlike(v) for v in vals):
        kind = "int"
    elif vals and all(isinstance(v, str) for v in vals):
        kind = "str"
    t = T((Axis(str(len(vals)), len(vals)),), lambda i: sel(vals, i), kind=kind, items=vals)
    t.facts["cnt"] = lambda v, strict_, items=vals: ground_cnt(items, v, strict_)
    return t


# ----------------------------------------------------------------------------------------------------------------
# builtins

@prim("len")
def p_len(ex, path, x):
    if hasattr(x, "sym_len"):
        return x.sym_len
    if isinstance(x, T):
        if x.ndim == 0:
            raise Unsupported("len() of 0-d array")
        if x.mask is not None:
            raise Unsupported("len of masked selection")
        return x.axes[0].size
    if isinstance(x, Obj):
        raise Unsupported("len of object")
    return len(x)


@prim("range")
def p_range(ex, path, *a):
    if len(a) == 1:
        n = a[0].size if isinstance(a[0], Axis) else a[0]
        return ("range", n)
    if all(pyint(v) for v in a):
        return list(range(*a))
    raise Unsupported("range with symbolic start")


@prim("zip")
def p_zip(ex, path, *seqs):
    ls = []
    for s in seqs:
        if isinstance(s, T):
            it = items_of(s) if s.ndim == 1 else None
            if it is None:
                if s.ndim >= 1 and s.axes[0].concrete():
                    it = [ex.getitem_items(s, [("idx", i)] + [("slice", None, None, None)] * (s.ndim - 1), path) for i in range(s.axes[0].size)]
                else:
                    return ("zip", seqs)
            ls.append(it)
        elif isinstance(s, tuple) and s and s[0] == "range":
            if not pyint(s[1]):
                return ("zip", seqs)
            ls.append(list(range(s[1])))
        else:
            ls.append(list(s))
    return [tuple(r) for r in zip(*ls)]


@prim("enumerate")
def p_enumerate(ex, path, seq):
    if isinstance(seq, T):
        it = items_of(seq)
        if it is None:
            return ("enumerate", seq)
        seq = it
    return [(i, v) for i, v in enumerate(seq)]


def _minmax(ismax):
    def f(ex, path, *a, **kw):
        if len(a) == 1 and not kw:
            a = a[0]
            if isinstance(a, T):
                a = items_of(a)
                if a is None:
                    raise Unsupported("min/max over symbolic tensor")
            a = list(a)
        a = list(a)
        res = a[0]
        for v in a[1:]:
            c = scalar_cmp(ast.Gt() if ismax else ast.Lt(), v, res)
            # python semantics: max keeps the first maximal element; replace only if strictly greater
            if isinstance(c, bool):
                res = v if c else res
            else:
                res = ite(c, v, res)
        return res
    return f


prim("min")(_minmax(False))
prim("max")(_minmax(True))


@prim("abs")
def p_abs(ex, path, x):
    return lift(lambda v: abs(v) if isinstance(v, (int, float)) else ite(scalar_cmp(ast.GtE(), v, 0), v, scalar_binop(ast.Sub(), 0, v)), x)


@prim("isinstance")
def p_isinstance(ex, path, v, ty):
    tys = ty if isinstance(ty, tuple) and not (ty and isinstance(ty[0], str)) else (ty,)
    for t in tys:
        if t is str and isinstance(v, str):
            return True
        if t is int and pyint(v):
            return True
        if t is int and is_sym(v) and is_int(v):
            return True
        if t is float and isinstance(v, float):
            return True
        if t is list and isinstance(v, list):
            return True
        if t is dict and isinstance(v, dict):
            return True
        if t is tuple and isinstance(v, tuple):
            return True
        if isinstance(t, tuple) and t and t[0] == "class" and isinstance(v, Obj) and ex.is_subclass(v.cls, t[1]):
            return True
        if isinstance(t, tuple) and t and t[0] == "pdDataFrame":
            if isinstance(v, Obj) and v.cls == "DataFrame":
                return True
        if isinstance(t, tuple) and t and t[0] == "Iterable" and isinstance(v, (list, tuple, str, T)):
            return True
    return False


@prim("callable")
def p_callable(ex, path, v):
    return isinstance(v, tuple) and bool(v) and v[0] in ("closure", "lambda", "func", "prim", "method", "unbound", "pyfunc", "class")


@prim("getattr")
def p_getattr(ex, path, o, name, *default):
    if isinstance(o, tuple) and o and o[0] == "class":
        ex.find(o[1], name)
        return ("unbound", o[1], name)
    if isinstance(o, tuple) and o and o[0] == "typeof":
        ex.find(o[1].cls, name)
        return ("unbound", o[1].cls, name)
    return ex.getattr(o, name, path)


@prim("type")
def p_type(ex, path, o):
    if isinstance(o, Obj):
        return ("typeof", o)
    raise Unsupported("type() of non-object")


@prim("sorted")
def p_sorted(ex, path, x):
    from .engine import SymSet
    if isinstance(x, SymSet):
        n = ex.new_int("nb_distinct")
        path.add(n >= 0)
        f = UF(f"distinct_sorted!{next(ex.fresh)}", IntSort(), IntSort())
        t = T((Axis("distinct", n),), lambda k, f=f: f(toI(k)), kind="int", prov="fresh")
        t.distinct_of = x
        return t
    if isinstance(x, (set, list, tuple)) and all(isinstance(v, (int, float, str)) for v in x):
        return sorted(x)
    raise Unsupported("sorted of symbolic values")


@prim("sum")
def p_pysum(ex, path, x):
    x = items_of(x) if isinstance(x, T) else list(x)
    res = 0
    for v in x:
        res = scalar_binop(ast.Add(), res, v)
    return res


@prim("all")
def p_pyall(ex, path, x):
    return b_and(*list(x))


@prim("any")
def p_pyany(ex, path, x):
    return b_or(*list(x))


@prim("math.pow")
def p_mathpow(ex, path, a, b):
    return UF("pow", RealSort(), RealSort(), RealSort())(toR(a), toR(b))


# ----------------------------------------------------------------------------------------------------------------
# array creation / conversion

@prim("np.asarray")
def p_asarray(ex, path, x, dtype=None, **kw):
    if isinstance(x, Obj) and x.cls == "ConfusionMatrix":
        return x.attrs["matrix"]            # __array__
    if isinstance(x, T):
        return x                            # aliases its argument
    return as_tensor(ex, path, x)


@prim("np.array")
def p_array(ex, path, x, dtype=None, **kw):
    t = as_tensor(ex, path, x)
    return t.with_(prov="fresh")


@prim("np.copy")
def p_copy(ex, path, x):
    return x.with_(prov="fresh") if isinstance(x, T) else x


@prim("ndarray.copy")
def p_ndcopy(ex, path, x):
    return p_copy(ex, path, x)


def shape_axes(shape):
    return [a if isinstance(a, Axis) else Axis(str(a), a) for a in (shape if isinstance(shape, (tuple, list)) else (shape,))]


def filled(value, kind):
    def f(ex, path, shape=None, dtype=None, **kw):
        k = kind
        if dtype is bool:
            k = "bool"
        elif dtype is int:
            k = "int"
        v = value if k != "bool" else bool(value)
        return T(shape_axes(shape), lambda *idx: v, kind=k)
    return f


prim("np.empty")(filled(0, "real"))
prim("np.zeros")(filled(0, "real"))
prim("np.ones")(filled(1, "real"))


def filled_like(value):
    def f(ex, path, t, fill=None, dtype=None, **kw):
        v = value if value is not None else fill
        if not isinstance(t, T):
            return v
        return T(t.axes, lambda *idx: v, kind="real")
    return f


prim("np.zeros_like")(filled_like(0))
prim("np.ones_like")(filled_like(1))
prim("np.full_like")(filled_like(None))


@prim("ndarray.shape", is_property=True)
def p_shape(ex, path, x):
    if isinstance(x, T):
        if x.mask is not None:
            raise Unsupported("shape of masked selection")
        return tuple(a.size if a.concrete() else a for a in x.axes)
    return ()


@prim("ndarray.ndim", is_property=True)
def p_ndim(ex, path, x):
    return x.ndim if isinstance(x, T) else 0


@prim("ndarray.size", is_property=True)
def p_size(ex, path, x):
    if not isinstance(x, T):
        return 1
    r = None
    for a in x.axes:
        r = a.size if r is None else scalar_binop(ast.Mult(), r, a.size)
    return 1 if r is None else r


@prim("ndarray.dtype", is_property=True)
def p_dtype(ex, path, x):
    return ("dtype", x.kind if isinstance(x, T) else "real")


@prim("ndarray.astype")
def p_astype(ex, path, x, ty):
    if ty is float:
        if isinstance(x, T):
            return x.with_(kind="real", prov="fresh") if x.kind != "real" else x.with_(prov="fresh")
        return x
    if ty is int:
        def conv(v):
            if intlike(v):
                return v
            if isinstance(v, float):
                return int(v)
            from .engine import int_of_real
            return int_of_real(toR(v))                        # truncation toward zero
        res = lift(conv, x, kind="int")
        return res
    if ty is str:
        return x
    raise Unsupported("astype")


@prim("ndarray.item")
def p_item(ex, path, x):
    if isinstance(x, T):
        if x.ndim != 0:
            raise Unsupported(".item() of non-0-d tensor")
        return x.elem()
    return x


@prim("ndarray.tolist")
def p_tolist(ex, path, x):
    return ("tolist", x)


@prim("np.isscalar")
def p_isscalar(ex, path, x):
    return not isinstance(x, (T, list, tuple))


@prim("np.reshape")
def p_reshape(ex, path, x, shape):
    from .engine import same_size
    if is_scalar(x):
        x0 = x
        x = T((), lambda: x0)
    if x.mask is not None:
        raise Unsupported("reshape of masked selection")
    if pyint(shape):
        shape = (shape,)
    shape = tuple(shape)
    if shape == (-1,):
        if x.ndim == 0:
            return T((Axis("1", 1),), lambda i: x.elem(), kind=x.kind)
        if x.ndim == 1:
            return x
        nz = [a for a in x.axes if not a.is_one()]
        if len(nz) <= 1:
            shape = (nz[0],) if nz else (1,)
        else:
            raise Unsupported("flatten of >1-d")
    # positional matching, skipping size-1 axes on both sides; -1 matches exactly one source axis (or none)
    src = [(k, a) for k, a in enumerate(x.axes) if not a.is_one()]
    new_axes, mapping = [], []          # mapping: new axis position -> source axis position
    si = 0
    tgt_nz = [t for t in shape if not ((pyint(t) and t == 1) or (isinstance(t, Axis) and t.is_one()))]
    n_wild = sum(1 for t in tgt_nz if pyint(t) and t == -1)
    wild_takes = len(src) - (len(tgt_nz) - n_wild)
    if n_wild > 1 or wild_takes not in (0, 1) or (n_wild == 0 and wild_takes != 0):
        raise Unsupported(f"reshape {x.axes} -> {shape}")
    for t in shape:
        if (pyint(t) and t == 1) or (isinstance(t, Axis) and t.is_one()):
            new_axes.append(Axis("1", 1))
            continue
        if pyint(t) and t == -1:
            if wild_takes == 1:
                k, a = src[si]
                si += 1
                mapping.append((len(new_axes), k))
                new_axes.append(a)
            else:
                new_axes.append(Axis("1", 1))       # -1 resolves to 1 (all other axes account for the size)
            continue
        if si >= len(src):
            raise Unsupported(f"reshape {x.axes} -> {shape}")
        k, a = src[si]
        si += 1
        tsize = t.size if isinstance(t, Axis) else t
        if not (isinstance(t, Axis) and t is a) and not same_size(tsize, a.size):
            raise Unsupported(f"reshape {x.axes} -> {shape}: axis {a} vs {t}")
        mapping.append((len(new_axes), k))
        new_axes.append(a)
    if si != len(src):
        raise Unsupported(f"reshape {x.axes} -> {shape}")

    def elem(*idx):
        sub = [0] * x.ndim
        for kn, ks in mapping:
            sub[ks] = idx[kn]
        return x.elem(*sub)
    return T(new_axes, elem, kind=x.kind, prov="view:" + x.prov)


@prim("np.expand_dims")
def p_expand_dims(ex, path, x, axis=0):
    x = as_tensor(ex, path, x)
    ax = axis if axis >= 0 else x.ndim + 1 + axis
    axes = list(x.axes)
    axes.insert(ax, Axis("1", 1))
    return T(axes, lambda *idx: x.elem(*(idx[:ax] + idx[ax + 1:])), kind=x.kind)


@prim("np.moveaxis")
def p_moveaxis(ex, path, t, source=None, destination=None):
    nd = t.ndim
    src_ = [s_ % nd for s_ in (source if isinstance(source, (list, tuple)) else [source])]
    dst = [d % nd for d in (destination if isinstance(destination, (list, tuple)) else [destination])]
    order = [k for k in range(nd) if k not in src_]
    for d, s_ in sorted(zip(dst, src_)):
        order.insert(d, s_)
    return T(tuple(t.axes[k] for k in order), lambda *idx: t.elem(*[idx[order.index(k)] for k in range(nd)]), kind=t.kind)


@prim("np.stack")
def p_stack(ex, path, lst, axis=0):
    lst = [as_tensor(ex, path, v) if not isinstance(v, T) else v for v in lst]
    ax = Axis(str(len(lst)), len(lst))
    axes0, fns = broadcast(*lst)
    nd = len(axes0)
    a = axis if axis >= 0 else nd + 1 + axis
    axes = list(axes0)
    axes.insert(a, ax)

    def elem(*idx):
        r = idx[:a] + idx[a + 1:]
        return sel([f(*r) for f in fns], idx[a])
    return T(axes, elem, kind=lst[0].kind)


@prim("np.concatenate")
def p_concatenate(ex, path, lst, axis=0):
    parts = []
    for v in lst:
        if isinstance(v, (list, tuple)):
            v = from_list(ex, path, list(v))
        if not isinstance(v, T) or v.ndim != 1:
            raise Unsupported("concatenate of non-1-d")
        if v.mask is not None:
            raise Unsupported("concatenate of masked selection")
        parts.append(v)
    if not parts:
        raise Unsupported("empty concatenate")
    if all(p.items is not None for p in parts):
        items = [x for p in parts for x in p.items]
        t = T((Axis("cat", len(items)),), lambda i: sel(items, i), items=items, kind=parts[0].kind)
        t.facts["cnt"] = lambda v, s, items=items: ground_cnt(items, v, s)
        return t
    parts = [p for p in parts if not (p.axes[0].concrete() and p.axes[0].size == 0)]
    if len(parts) == 1:
        return parts[0].with_(prov="fresh")
    sizes = [toI(p.axes[0].size) for p in parts]
    total = simplify(sum(sizes[1:], sizes[0]))

    def elem(i):
        i = toI(i)
        off = sizes[0]
        res = parts[-1].elem(i - sum(sizes[1:-1], sizes[0])) if len(parts) > 1 else None
        # build from the back
        offs = [IntVal(0)]
        for s_ in sizes[:-1]:
            offs.append(offs[-1] + s_)
        res = parts[-1].elem(i - offs[-1])
        for k in range(len(parts) - 2, -1, -1):
            res = ite(i < offs[k] + sizes[k], parts[k].elem(i - offs[k]), res)
        return res
    t = T((Axis("cat", total),), elem, kind=parts[0].kind)
    if all("cnt" in p.facts for p in parts):
        t.facts["cnt"] = lambda v, s, parts=parts: sum([p.facts["cnt"](v, s) for p in parts[1:]], parts[0].facts["cnt"](v, s))
    flat = []
    for p_ in parts:
        flat += list(getattr(p_, "parts", None) or [p_])
    t.parts = flat
    return t


def _arr_key(x):
    if x.sym is not None:
        return ("sym", x.sym[0].get_id())
    if x.items is not None:
        return ("items",) + tuple(id(v) if not is_sym(v) else v.get_id() for v in x.items)
    if getattr(x, "parts", None):
        ks = [_arr_key(p) for p in x.parts]
        return None if any(k is None for k in ks) else ("cat",) + tuple(ks)
    return None


@prim("np.sort")
def p_sort(ex, path, x, **kw):
    """ascending permutation of the input (fresh array).  np.sort is a function: the same input gives the same output, so the
    result is memoised per execution context (its facts are re-asserted on the current path)."""
    x = as_tensor(ex, path, x)
    if x.ndim != 1:
        raise Unsupported("np.sort of non-1-d")
    if x.facts.get("sorted"):
        return x.with_(prov="fresh")
    key = _arr_key(x)
    cache = ex.__dict__.setdefault("sort_cache", {})
    if key is not None and key in cache:
        new, fs = cache[key]
        for f in fs:
            path.add(f)
        return new.with_(prov="fresh")
    mark = len(path.entries)
    its = items_of(x)
    if its is not None:
        n = len(its)
        new = mk_array(ex, path, "sorted", n, ascending=True, floats=False)
        vals = list(its)
        for w in vals + new.items:
            path.add(ground_cnt(new.items, w, True) == ground_cnt(vals, w, True))
            path.add(ground_cnt(new.items, w, False) == ground_cnt(vals, w, False))
    else:
        n = toI(x.axes[0].size)
        # deterministic name: np.sort is a function of its input (two executions on the same input talk about the same array)
        nm = None
        if key is not None and key[0] in ("sym", "cat"):
            nm = "sorted(" + ",".join(str(p.sym[0]) for p in ([x] if x.sym is not None else x.parts)) + ")"
        new = mk_array(ex, path, "sorted", n, ascending=True, floats=True, exact_name=nm)
        A, N = new.sym
        from z3 import is_const, is_app
        simple_len = pyint(N) or (is_app(N) and N.num_args() == 0)      # a pattern may not contain arithmetic / ite in the length
        if "cnt" not in x.facts and x.ndim == 1 and x.mask is None and simple_len:
            # an unnamed derived array (e.g. a mask selection): name it so that "sorting preserves the counts" can be stated
            xn = name_tensor(ex, path, x)
            Ax, Nx = xn.sym
            x.facts["cnt"] = lambda v_, strict_, Ax=Ax, Nx=Nx: (cnt_lt if strict_ else cnt_le)(Ax, Nx, toR(v_))
            x.counted_as = (Ax, Nx)
        if "cnt" in x.facts:
            v = Real("v!srt")
            path.add(ForAll([v], cnt_lt(A, N, v) == x.facts["cnt"](v, True), patterns=[cnt_lt(A, N, v)]))
            path.add(ForAll([v], cnt_le(A, N, v) == x.facts["cnt"](v, False), patterns=[cnt_le(A, N, v)]))
        new.sorted_of = x
    if key is not None:
        cache[key] = (new, [f for f, _ in path.entries[mark:]])
    if not hasattr(new, "sorted_of"):
        new.sorted_of = x
    ex.last_sorted = new
    return new


def name_tensor(ex, path, a, base="named"):
    """a derived 1-D tensor that enters a quantified fact is first *named*: fresh array symbol + definitional axiom with the
    symbol as trigger (DESIGN appendix A, lesson 2)"""
    if getattr(a, "_named", None) is not None:
        t, fact = a._named
        path.add(fact)
        return t
    N = toI(a.axes[0].size)
    A = Array(f"{base}!{next(ex.fresh)}", IntSort(), RealSort())
    i = Int("i!nm")
    path.add(ForAll([i], Implies(And(0 <= i, i < N), A[i] == toR(a.elem(i))), patterns=[A[i]]))
    t = T((Axis(base, N),), lambda k, A=A: A[toI(k)], kind=a.kind, prov=a.prov, sym=(A, N))
    t.facts = dict(a.facts)
    t.facts.pop("sorted", None)
    t.named_of = a
    for attr in ("view_src", "view_kind"):
        if hasattr(a, attr):
            setattr(t, attr, getattr(a, attr))
    t.facts["cnt"] = lambda v, strict_, A=A, N=N: (cnt_lt if strict_ else cnt_le)(A, N, toR(v))
    a._named = (t, path.entries[-1][0])
    return t


@prim("np.searchsorted")
def p_searchsorted(ex, path, a, v, side="left"):
    a = as_tensor(ex, path, a)
    if a.ndim != 1:
        raise Unsupported("searchsorted on non-1-d")
    if side not in ("left", "right"):
        raise Unsupported("searchsorted side")
    strict = side == "left"
    if a.items is not None or (a.axes[0].concrete() and a.sym is None):
        its = items_of(a)
        if not a.facts.get("sorted"):
            ex.oblige("searchsorted-requires-ascending", path, And(*[toR(x) <= toR(y) for x, y in zip(its, its[1:])]) if len(its) > 1 else True, "precondition")
        return lift(lambda vv: ground_cnt(its, vv, strict), v, kind="int")
    if a.sym is None:
        a = name_tensor(ex, path, a)
    A, N = a.sym
    if not a.facts.get("sorted"):
        ex.oblige("searchsorted-requires-ascending", path, sorted_formula(A, N), "precondition")
    seen = set()

    def f(vv):
        vr = toR(vv)
        if vr.get_id() not in seen:
            seen.add(vr.get_id())
            fact = cnt_char(A, N, vr)
            path.add(fact)
            ex.__dict__.setdefault("ss_log", []).append({"A": A, "N": N, "v": vr, "side": side, "fact": fact.get_id(), "array": a})
        return (cnt_lt if strict else cnt_le)(A, N, vr)
    if isinstance(v, T):
        # instantiate the counting lemma at the generic element(s)
        res = lift(f, v, kind="int")
        if isinstance(res, T):
            probe = [ex.new_int("x") for _ in res.axes]
            res.elem(*probe)                   # forces the L1 instance for a generic position
        return res
    return f(v)


@prim("np.nextafter")
def p_nextafter(ex, path, x, d):
    if isinstance(d, (list, T)):
        d = as_tensor(ex, path, d)
        # nextafter(points, [[-inf],[inf]]) : broadcasting against a (2,1) direction array
        its = [[d.elem(i, 0) for i in range(d.axes[0].size)]] if d.ndim == 2 else None
        if its is None or d.axes[1].size != 1:
            raise Unsupported("nextafter direction array")
        rows = [p_nextafter(ex, path, x, dd) for dd in its[0]]
        return p_stack(ex, path, rows, axis=0)

    def f(xv):
        xv = toR(xv)
        if d not in (NINF, INF):
            raise Unsupported("nextafter direction")
        down = d == NINF
        r = (nxt_dn if down else nxt_up)(xv)
        path.add(r < xv if down else r > xv)
        if ex.ground:
            # quantifier-free: the adjacency axiom instantiated over the finite set of named floats
            for fl_ in getattr(ex, "ground_floats", []):
                path.add(Implies(fl_ < xv, fl_ <= r) if down else Implies(fl_ > xv, fl_ >= r))
            ex.ground_floats = getattr(ex, "ground_floats", []) + [r]
        else:
            y = Real("y!na")
            path.add(ForAll([y], Implies(And(isfloat(y), (y < xv) if down else (y > xv)), (y <= r) if down else (y >= r)),
                            patterns=[isfloat(y)]))
            path.add(isfloat(r))
        return r
    if isinstance(x, T) and x.ndim >= 1:
        # elementwise over a symbolic array: the adjacency facts are emitted lazily for the elements that are read
        return lift(f, x)
    return lift(f, x)


def _to_int_real(r, ceil=False):
    """floor / ceil as reals.  ceil is expressed through the *same* floor term (solvers are weak on to_int(-x))"""
    fl = ToReal(ToInt(r))
    return If(fl == r, fl, fl + 1) if ceil else fl


@prim("np.floor")
def p_floor(ex, path, x):
    return lift(lambda v: (__import__("math").floor(v) * 1.0) if isinstance(v, (int, float)) else _to_int_real(toR(v)), x)


@prim("np.ceil")
def p_ceil(ex, path, x):
    return lift(lambda v: (__import__("math").ceil(v) * 1.0) if isinstance(v, (int, float)) else _to_int_real(toR(v), True), x)


def _np_minmax(ismax):
    def g(a, b):
        if isinstance(a, FV) or isinstance(b, FV):
            raise Unsupported("np.maximum/minimum with NaN")
        if not is_sym(a) and not is_sym(b):
            return max(a, b) if ismax else min(a, b)
        c = scalar_cmp(ast.GtE() if ismax else ast.LtE(), a, b)
        return ite(c, a, b)

    def f(ex, path, a, b):
        a = as_tensor(ex, path, a) if isinstance(a, (list, tuple)) else a
        b = as_tensor(ex, path, b) if isinstance(b, (list, tuple)) else b
        return lift(g, a, b)
    return f


prim("np.maximum")(_np_minmax(True))
prim("np.minimum")(_np_minmax(False))


@prim("np.abs")
def p_npabs(ex, path, x):
    return p_abs(ex, path, x)


@prim("np.where")
def p_where(ex, path, c, a, b):
    return lift(lambda cc, x, y: ite(cc if isinstance(cc, bool) else toB(cc), x, y), c, a, b, kind="real")


@prim("np.divide")
def p_divide(ex, path, a, b, out=None, where=None):
    def div(x, y):
        return scalar_binop(ast.Div(), x, y)
    if where is None:
        return lift(div, a, b, kind="real")

    def f(x, y, o, w):
        if isinstance(w, bool):
            return div(x, y) if w else o
        return ite(toB(w), div(x, y), o)
    return lift(f, a, b, out, where, kind="real")


@prim("np.sqrt")
def p_sqrt(ex, path, x):
    sq = UF("sqrt", RealSort(), RealSort())

    def f(v):
        if isinstance(v, (int, float)) and not isinstance(v, bool):
            return RealVal(0) if v == 0 else (RealVal(1) if v == 1 else sq(toR(v)))
        r = sq(toR(v))
        return FV(r, v.nan) if isinstance(v, FV) else r
    return lift(f, x, kind="real")


def reduce_concrete(x, axes, op, init):
    """reduction over concrete axes: explicit"""
    keep = [k for k in range(x.ndim) if k not in axes]

    def elem(*idx):
        import itertools as it
        res = init
        rng = [range(x.axes[k].size) for k in axes]
        for combo in it.product(*rng):
            full = [None] * x.ndim
            for k, v in zip(keep, idx):
                full[k] = v
            for k, v in zip(axes, combo):
                full[k] = v
            val = x.elem(*full)
            res = val if res is None else op(res, val)
        return res
    rem = [x.axes[k] for k in keep]
    return T(rem, elem, kind=x.kind if x.kind != "bool" else "int") if rem else elem()


_tmp_counter = __import__("itertools").count()


def lam_depth(t, memo=None):
    from z3 import is_quantifier, is_app
    memo = {} if memo is None else memo
    i = t.get_id()
    if i in memo:
        return memo[i]
    if is_quantifier(t):
        d = 1 + lam_depth(t.body(), memo)
    elif is_app(t):
        d = max([lam_depth(c, memo) for c in t.children()], default=0)
    else:
        d = 0
    memo[i] = d
    return d


def canon_lambda(body_fn):
    """Lambda over one Int with a *canonical* bound-variable name (by nesting depth), so that structurally equal columns are
    syntactically equal terms and nested reductions never capture each other's variable"""
    from z3 import substitute
    tmp = Int(f"i!tmp{next(_tmp_counter)}")
    body = body_fn(tmp)
    v = Int(f"i!red{lam_depth(body)}")
    return Lambda([v], substitute(body, (tmp, v)))


def reduce_sym(ex, x, ax, name, kind="real"):
    """reduction along one symbolic axis: uninterpreted symbol over a Lambda column (integer-valued for integer tensors)"""
    rem = x.axes[:ax] + x.axes[ax + 1:]
    if name == "sum_red" and x.kind == "int":
        fi = UF("isum_red", ArraySort(IntSort(), IntSort()), IntSort(), IntSort())

        def elem_i(*idx):
            return fi(canon_lambda(lambda i: toI(x.elem(*(idx[:ax] + (i,) + idx[ax:])))), toI(x.axes[ax].size))
        return T(rem, elem_i, kind="int") if rem else elem_i()
    f = UF(name, ArrS, IntSort(), RealSort())

    def elem(*idx):
        return f(canon_lambda(lambda i: toR(x.elem(*(idx[:ax] + (i,) + idx[ax:])))), toI(x.axes[ax].size))
    return T(rem, elem, kind=kind) if rem else elem()


def norm_axes(x, axis):
    if axis is None:
        return list(range(x.ndim))
    if isinstance(axis, (tuple, list)):
        return sorted(a % x.ndim for a in axis)
    return [axis % x.ndim]


@prim("np.sum")
def p_sum(ex, path, x, axis=None, **kw):
    x = as_tensor(ex, path, x)
    if x.ndim == 0:
        return x.elem()
    axes = norm_axes(x, axis)
    add = lambda a, b: scalar_binop(ast.Add(), toI(a) if boollike(a) else a, toI(b) if boollike(b) else b)
    if all(x.axes[k].concrete() for k in axes):
        return reduce_concrete(x, axes, add, 0)
    conc = [k for k in axes if x.axes[k].concrete()]
    symb = [k for k in axes if not x.axes[k].concrete()]
    y = reduce_concrete(x, conc, add, 0) if conc else x
    axs = sorted([k - sum(1 for c in conc if c < k) for k in symb], reverse=True)
    for ax in axs:
        y = reduce_sym(ex, y, ax, "sum_red") if isinstance(y, T) else y
    return y


@prim("ndarray.sum")
def p_ndsum(ex, path, x, axis=None, **kw):
    return p_sum(ex, path, x, axis=axis)


@prim("np.nansum")
def p_nansum(ex, path, x, axis=None):
    x = as_tensor(ex, path, x)
    axes = norm_axes(x, axis)
    if len(axes) == 1 and not x.axes[axes[0]].concrete():
        return reduce_sym(ex, x, axes[0], "nansum_red")
    raise Unsupported("nansum")


@prim("np.diagonal")
def p_diagonal(ex, path, x, axis1=0, axis2=1, **kw):
    a1, a2 = axis1 % x.ndim, axis2 % x.ndim
    if {a1, a2} != {x.ndim - 1, x.ndim - 2}:
        raise Unsupported("diagonal axes")
    if not same_axis_size(x.axes[a1], x.axes[a2]):
        raise Unsupported("diagonal of non-square")
    return T(x.axes[:-2] + (x.axes[-1],), lambda *idx: x.elem(*(idx[:-1] + (idx[-1], idx[-1]))), kind=x.kind)


def same_axis_size(a, b):
    from .engine import same_size
    return a is b or same_size(a.size, b.size)


@prim("np.any")
def p_any(ex, path, x, axis=None):
    x = as_tensor(ex, path, x)
    if x.ndim == 0:
        return x.elem()
    its = items_of(x)
    if its is not None:
        return b_or(*its)
    if x.ndim == 1:
        # exists i. x[i]  -- skolemised both ways through a fresh boolean with its defining axioms
        r = ex.new("any", BoolSort())
        w = ex.new_int("w")
        i = Int(f"i!any{next(ex.fresh)}")
        n = toI(x.axes[0].size)
        body = toB(x.elem(i))
        path.add(Implies(r, And(0 <= w, w < n, toB(x.elem(w)))))
        path.add(Implies(Not(r), ForAll([i], Implies(And(0 <= i, i < n), Not(body)))))
        return r
    raise Unsupported("np.any")


@prim("np.all")
def p_all(ex, path, x, axis=None):
    x = as_tensor(ex, path, x)
    its = items_of(x)
    if x.ndim == 0:
        return x.elem()
    if its is not None:
        return b_and(*its)
    r = p_any(ex, path, lift(lambda v: b_not(v), x, kind="bool"))
    return Not(r)


@prim("np.isnan")
def p_isnan(ex, path, x):
    return lift(lambda v: nan_of(v), x, kind="bool")


@prim("np.isclose")
def p_isclose(ex, path, a, b, **kw):
    # |a-b| <= atol + rtol*|b| with the NumPy defaults; in exact arithmetic the check only needs the contract below
    rt, at = RealVal("1/100000"), RealVal("1/100000000")
    def f(x, y):
        if not is_sym(x) and not is_sym(y):
            return abs(x - y) <= 1e-8 + 1e-5 * abs(y)
        X, Y = toR(x), toR(y)
        d = If(X - Y >= 0, X - Y, Y - X)
        ay = If(Y >= 0, Y, -Y)
        return d <= at + rt * ay
    return lift(f, a, b, kind="bool")


@prim("np.trapezoid")
def p_trapezoid(ex, path, y, x):
    yi, xi = items_of(y), items_of(x)
    if yi is not None and xi is not None:
        res = RealVal(0)
        for k in range(len(xi) - 1):
            res = res + (toR(xi[k + 1]) - toR(xi[k])) * (toR(yi[k]) + toR(yi[k + 1])) / 2
        return res
    f = UF("trapz", ArrS, ArrS, IntSort(), RealSort())
    i = Int(f"i!tz{next(ex.fresh)}")
    return f(Lambda([i], toR(y.elem(i))), Lambda([i], toR(x.elem(i))), toI(x.axes[0].size))


@prim("np.linspace")
def p_linspace(ex, path, start, stop, num=50, endpoint=True):
    n = num
    if pyint(n) and not is_sym(start) and not is_sym(stop):
        import numpy as np
        vals = [float(v) for v in np.linspace(start, stop, n, endpoint=endpoint)]
        return from_list(ex, path, vals)
    N = toI(n)
    a, b = toR(start), toR(stop)
    den = ToReal(N - 1) if endpoint else ToReal(N)

    def elem(i):
        i = toI(i)
        return If(N == 1, a, a + (b - a) * ToReal(i) / den)
    t = T((Axis("linspace", n),), elem, kind="real")
    t.facts["linspace"] = (a, b, n, endpoint)
    return t


# ----------------------------------------------------------------------------------------------------------------
# scipy.stats.norm -- uninterpreted with axioms (DESIGN 4.4)

Phi = UF("Phi", RealSort(), RealSort())            # standard normal cdf
PhiInv = UF("PhiInv", RealSort(), RealSort())      # its quantile function


def _norm(kind):
    def f(ex, path, x, loc=0, scale=1):
        def g(v, mu, sg):
            std = (mu == 0 and sg == 1) if (isinstance(mu, (int, float)) and isinstance(sg, (int, float))) else False
            if std:
                v = toR(v)
                return {"cdf": lambda: Phi(v), "sf": lambda: 1 - Phi(v), "ppf": lambda: PhiInv(v), "isf": lambda: PhiInv(1 - v)}[kind]()
            v, mu, sg = toR(v), toR(mu), toR(sg)
            if kind == "cdf":
                return Phi((v - mu) / sg)
            if kind == "sf":
                return 1 - Phi((v - mu) / sg)
            if kind == "ppf":
                return mu + sg * PhiInv(v)
            if kind == "isf":
                return mu + sg * PhiInv(1 - v)
        return lift(g, x, loc, scale, kind="real")
    return f


for _k in ("cdf", "sf", "ppf", "isf"):
    prim("scipy.stats.norm." + _k)(_norm(_k))


def install(extra=None):
    d = dict(PRIMS)
    if extra:
        d.update(extra)
    return d


@prim("np.take")
def p_take(ex, path, a, idx, axis=None):
    a = as_tensor(ex, path, a)
    if axis is None:
        raise Unsupported("np.take without axis")
    ax = axis % a.ndim
    items = [("slice", None, None, None)] * ax + [("idx", idx)] + [("slice", None, None, None)] * (a.ndim - ax - 1)
    return ex.getitem_items(a, items, path)


@prim("np.unique")
def p_unique(ex, path, x):
    x = as_tensor(ex, path, x)
    its = items_of(x)
    if its is not None and all(not is_sym(v) for v in its):
        return from_list(ex, path, sorted(set(its)))
    raise Unsupported("np.unique of symbolic values")


@prim("np.array_equal")
def p_array_equal(ex, path, a, b, **kw):
    raise Unsupported("np.array_equal")


@prim("ndarray.flatten")
def p_flatten(ex, path, x):
    if x.ndim == 1:
        return x.with_(prov="fresh")
    if x.ndim == 2 and x.axes[0].concrete():
        r, n = x.axes[0].size, toI(x.axes[1].size)
        def elem(k):
            k = toI(k)
            res = x.elem(r - 1, k - (r - 1) * n)
            for q in range(r - 2, -1, -1):
                res = ite(k < (q + 1) * n, x.elem(q, k - q * n), res)
            return res
        t = T((Axis("flat", simplify(r * n)),), elem, kind=x.kind)
        t.flat_of = x
        return t
    raise Unsupported("flatten")
