#!/usr/bin/env python3
"""tools/confirm_benign.py <name> <patch> <why.txt|-> <check-id> [<check-id> ...]

Files one behaviour-preserving refactoring under /verif/benign/<name>/ (patch.diff, why.txt, meta.json): scratch worktree of /repo's
HEAD (removed afterwards), the repository's tests must pass with the patch, and every listed check is run against the patched copy.
A check must not print VIOLATION / exit 1 on such an edit; `undecided` obligations (exit 0) are recorded as loss of proof coverage."""
import json
import os
import shutil
import subprocess
import sys
import tempfile

VERIF = os.path.dirname(os.path.dirname(os.path.abspath(__file__)))
REPO = "/repo"


def sh(cmd, cwd=None, env=None, timeout=7200):
    p = subprocess.run(cmd, cwd=cwd, env=env, capture_output=True, text=True, timeout=timeout)
    return p.returncode, p.stdout + p.stderr


def main():
    name, patch, why = sys.argv[1:4]
    checks = sys.argv[4:]
    base = tempfile.mkdtemp(prefix="benwt.")
    wt = os.path.join(base, "wt")
    meta = {"name": name, "head": sh(["git", "-C", REPO, "rev-parse", "--short", "HEAD"])[1].strip(), "checks": {}}
    try:
        rc, out = sh(["git", "-C", REPO, "worktree", "add", "--detach", wt, "HEAD"])
        if rc:
            print(out)
            return 2
        rc, out = sh(["git", "apply", os.path.abspath(patch)], cwd=wt)
        meta["patch_applies"] = rc == 0
        if rc:
            print(name, "PATCH-FAILED", out.strip().splitlines()[-1:])
            return 9
        meta["files"] = sh(["git", "diff", "--stat"], cwd=wt)[1].strip().splitlines()
        rc, out = sh(["/venv/bin/python", "-m", "pytest", "-q", "-p", "no:cacheprovider", "--timeout=900"], cwd=wt, timeout=3000)
        meta["tests_with_patch"] = {"exit": rc, "summary": out.strip().splitlines()[-1:]}
        for cid in checks:
            ev = os.path.join(base, "ev-" + cid)
            os.makedirs(ev)
            env = dict(os.environ, VERIF_REPO=wt, VERIF_EVIDENCE_DIR=ev, VERIF_REPLAY_DIR=ev)
            rc, out = sh(["./check", cid, "--tier", "quick"], cwd=VERIF, env=env)
            lines = out.splitlines()
            cov = {}
            try:
                cov = json.load(open(os.path.join(ev, cid + ".json")))
            except Exception:
                pass
            meta["checks"][cid] = {"exit": rc, "violation_lines": [ln[:300] for ln in lines if ln.startswith("VIOLATION") or ln.startswith("  clause=")][:4],
                                   "undecided": [ln.split("obligation=")[-1][:160] for ln in lines if ln.startswith("UNDECIDED")][:6],
                                   "undecided_count": sum(1 for ln in lines if ln.startswith("UNDECIDED")),
                                   "obligations": cov.get("coverage", {}).get("obligations"), "discharged": cov.get("coverage", {}).get("discharged"), "level": cov.get("level")}
        d = os.path.join(VERIF, "benign", name)
        os.makedirs(d, exist_ok=True)
        if os.path.abspath(patch) != os.path.join(d, "patch.diff"):
            shutil.copy(patch, os.path.join(d, "patch.diff"))
        if why != "-":
            if os.path.abspath(why) != os.path.join(d, "why.txt"):
                shutil.copy(why, os.path.join(d, "why.txt"))
            meta["description"] = open(why).read().strip()
        meta["false_alarm"] = any(c["exit"] != 0 or c["violation_lines"] for c in meta["checks"].values())
        json.dump(meta, open(os.path.join(d, "meta.json"), "w"), indent=1)
        print(name, "tests", meta["tests_with_patch"]["exit"], "FALSE-ALARM" if meta["false_alarm"] else "quiet",
              {k: (v["exit"], f"{v['discharged']}/{v['obligations']}", v["undecided_count"]) for k, v in meta["checks"].items()})
        return 0
    finally:
        sh(["git", "-C", REPO, "worktree", "remove", "--force", wt])
        shutil.rmtree(base, ignore_errors=True)
        sh(["git", "-C", REPO, "worktree", "prune"])


if __name__ == "__main__":
    sys.exit(main())
