"""Further primitive contracts (pandas, RNG, misc); registered on import."""
from z3 import And, BoolSort, ForAll, If, Implies, Int, IntSort, IntVal, Not, Or, Real, RealSort, RealVal, ToReal

from .engine import (FV, INF, NINF, UF, Axis, EnumVal, Obj, T, Unsupported, b_and, b_not, b_or, boollike, intlike,
                     is_scalar, is_sym, ite, lift, pyint, toB, toI, toR)
from .prims import PRIMS, as_tensor, from_list, items_of, mk_array, prim, sel


@prim("pd.DataFrame", is_property=False)
def p_dataframe(ex, path, *a, **k):
    raise Unsupported("pandas DataFrame construction")


PRIMS["pd.DataFrame"] = ("pdDataFrame",)
PRIMS["Iterable"] = ("Iterable",)


# ---- mutating methods: logged for the frame analysis (DESIGN 5.3); the value model treats them as no-ops on purpose,
# because the frame obligation fails as soon as one of them touches an array that is not fresh
def _mutator(name):
    def f(ex, path, x, *a, **k):
        prov = x.prov if isinstance(x, T) else "scalar"
        ex.stores.append((f"in-place {name}", prov, 0))
        if prov == "fresh" or prov.startswith("view:fresh"):
            raise Unsupported(f"in-place {name} on a fresh array (value model missing)")
        return None
    return f


for _n in ("sort", "fill", "resize", "put", "partition", "itemset"):
    prim("ndarray." + _n)(_mutator(_n))


# ---- C13: quantiles / reductions with NaN-aware columns --------------------------------------------------------------
from z3 import ArraySort, BoolSort as _BoolSort, Lambda
from .engine import ArrS, nan_of

BArrS = ArraySort(IntSort(), _BoolSort())
nanq = UF("nanq", ArrS, BArrS, IntSort(), RealSort(), RealSort())       # NaN-ignoring empirical quantile of a column
isfinite_uf = UF("isfinite", RealSort(), _BoolSort())


def column(ex, t, rest_idx):
    from .prims import canon_lambda
    from z3 import BoolVal

    def nn(i):
        n_ = nan_of(t.elem(i, *rest_idx))
        return BoolVal(n_) if isinstance(n_, bool) else toB(n_)
    return canon_lambda(lambda i: toR(t.elem(i, *rest_idx))), canon_lambda(nn), toI(t.axes[0].size)


@prim("np.nanquantile")
def p_nanquantile(ex, path, t, q=None, axis=None):
    if axis != 0:
        raise Unsupported("nanquantile axis")
    t = as_tensor(ex, path, t)
    qt = as_tensor(ex, path, q) if not isinstance(q, T) else q
    rest = t.axes[1:]

    def elem(*idx):
        qi, yi = idx[:qt.ndim], idx[qt.ndim:]
        vals, nans, n = column(ex, t, yi)
        return nanq(vals, nans, n, toR(qt.elem(*qi)))
    axes = tuple(qt.axes) + tuple(rest)
    return T(axes, elem, kind="real") if axes else elem()


@prim("np.isfinite")
def p_isfinite(ex, path, x):
    return lift(lambda v: isfinite_uf(toR(v)), x, kind="bool")


def _nan_reduce(name):
    def f(ex, path, x, axis=None):
        x = as_tensor(ex, path, x)
        if axis != 0 or x.axes[0].concrete():
            raise Unsupported(name)
        red = UF(name, ArrS, BArrS, IntSort(), RealSort())
        rest = x.axes[1:]

        def elem(*idx):
            vals, nans, n = column(ex, x, idx)
            return red(vals, nans, n)
        return T(rest, elem, kind="real") if rest else elem()
    return f


PRIMS["np.nansum"] = _nan_reduce("nansum_red")
