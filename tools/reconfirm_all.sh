#!/bin/bash
# tools/reconfirm_all.sh [seeded|benign|all]  -- re-run the confirmation of every stored seeded change / benign edit against /repo's HEAD
# (uses the patch, demonstration and notes stored under seeded/ and benign/; rewrites their meta.json and the two README tables)
cd "$(dirname "$0")/.."
what=${1:-all}
if [ "$what" = seeded ] || [ "$what" = all ]; then
  for d in seeded/*/; do n=$(basename $d); [ -f $d/patch.diff ] || continue
    prop=$(python3 -c "import json;print(json.load(open('$d/meta.json'))['property'])")
    also=$(python3 -c "import json;m=json.load(open('$d/meta.json'));print(','.join(k for k in m.get('checks',{}) if k!=m['property']))")
    demo=-; [ -f $d/demo.py ] && demo=$d/demo.py
    note=-; [ -f $d/note.txt ] && note=$d/note.txt
    .venv/bin/python tools/confirm_seeded.py $n $prop $d/patch.diff $demo $note ${also:+--also $also} 2>&1 | tail -1
  done
  .venv/bin/python tools/seeded_table.py
fi
if [ "$what" = benign ] || [ "$what" = all ]; then
  for d in benign/*/; do n=$(basename $d); [ -f $d/patch.diff ] || continue
    checks=$(python3 -c "import json;print(' '.join(json.load(open('$d/meta.json'))['checks']))")
    why=-; [ -f $d/why.txt ] && why=$d/why.txt
    .venv/bin/python tools/confirm_benign.py $n $d/patch.diff $why $checks 2>&1 | tail -1
  done
  .venv/bin/python tools/benign_table.py
fi
