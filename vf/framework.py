"""Check driver: verdict policy (DESIGN 5.4), evidence, replay files, known findings."""
import hashlib
import importlib
import json
import os
import sys
import time
import traceback

ROOT = os.path.dirname(os.path.dirname(os.path.abspath(__file__)))
REPO = os.environ.get("VERIF_REPO", "/repo")

ASSUMPTIONS = [
    "machine arithmetic treated as mathematical in the proof layer: float64 = exact reals, int = unbounded integers (no rounding, no overflow); only the bounded layer executes real floating point",
    "assumed contracts of NumPy/SciPy/pandas primitives (listed in coverage.trusted_base), validated by conformance samples of the bounded layer, not proved",
    "the VC generator itself (vf/engine.py): encoding of Python evaluation order, truthiness, unpacking, closures, @property, getattr(type(self),..), integer vs true division, negative indices, slicing; cross-checked against CPython on the bounded inputs, not verified",
    "induction schemas of the lemma library are instantiated by the generator (base/step); the solver discharges base and step",
    "termination is not proved (bisection loops)",
    "inputs satisfy the property's quantifier text: finite NaN-free scores, 1-D score arrays, alpha in (0,1)",
    "z3 5.1.0 (and cvc5 1.4.0 where used) are trusted for `unsat`",
]


def real_repo():
    """import the real package from $VERIF_REPO (never the installed copy in site-packages)"""
    if sys.path[0] != REPO:
        sys.path.insert(0, REPO)
    for k in [k for k in sys.modules if k == "score_analysis" or k.startswith("score_analysis.")]:
        if not getattr(sys.modules[k], "__file__", "").startswith(REPO):
            del sys.modules[k]
    import warnings
    with warnings.catch_warnings():
        warnings.simplefilter("ignore")
        import score_analysis
        import score_analysis.experimental.roc_ci  # noqa: F401
        import score_analysis.experimental.datasets  # noqa: F401
        import score_analysis.applications.doc_fraud  # noqa: F401
    assert score_analysis.__file__.startswith(REPO), score_analysis.__file__
    return score_analysis


def load_known():
    p = os.path.join(ROOT, "known_findings.json")
    if not os.path.exists(p):
        return {"findings": [], "fixed": []}
    return json.load(open(p))


class Finding:
    def __init__(self, clause, key, what, case=None, kind="bounded", obligation=None, solver=None, reproduced=True):
        self.clause, self.key, self.what, self.case, self.kind = clause, key, what, case, kind
        self.obligation, self.solver, self.reproduced = obligation, solver, reproduced


class Check:
    def __init__(self, pid, tier, seed):
        self.pid, self.tier, self.seed = pid, tier, seed
        self.t0 = time.time()
        self.obligs = []            # discharged / failed proof obligations
        self.findings = []          # violations (reproduced counterexamples or definite refutations)
        self.undecided = []         # obligation ids left undecided by proof
        self.bounded = {"evaluations": 0, "distinct_nontrivial": 0, "clauses": {}, "bound": "", "exhaustive": False}
        self.samples = []
        self.functions = {}
        self.callee_contracts = set()
        self.notes = []
        self.trusted = set()
        self.vacuity = []
        self.crosscheck = 0
        self.lemmas = []
        self.known = [k for k in load_known().get("findings", []) if k["property"] == pid]
        self.extra = {}

    # -------- bounded layer bookkeeping --------
    def count(self, clause, n=1, nontrivial=0):
        c = self.bounded["clauses"].setdefault(clause, {"evaluations": 0, "nontrivial": 0})
        c["evaluations"] += n
        c["nontrivial"] += nontrivial
        self.bounded["evaluations"] += n
        self.bounded["distinct_nontrivial"] += nontrivial

    def violation(self, clause, key, what, case=None, kind="bounded", obligation=None, solver=None, reproduced=True):
        # keep at most 3 findings per key
        same = [f for f in self.findings if f.key == key]
        if len(same) >= 3:
            return
        what = what if len(str(what)) <= 600 else str(what)[:600] + " ..."
        self.findings.append(Finding(clause, key, what, case, kind, obligation, solver, reproduced))

    def _second_solver(self):
        """thorough tier: quantifier-free obligations discharged by z3 and re-checked with cvc5 1.0.3"""
        st = [o.meta.get("cvc5") for o in self.obligs if getattr(o, "meta", None) and o.meta.get("cvc5")]
        if not st:
            return {"cvc5_rechecked": 0}
        bad = [o.id for o in self.obligs if getattr(o, "meta", None) and o.meta.get("cvc5") == "sat"]
        for b in bad:
            if b not in self.undecided:
                self.undecided.append(b)
                self.notes.append(f"solver disagreement on {b}: z3 unsat, cvc5 sat")
        return {"cvc5_rechecked": len(st), "cvc5_unsat": st.count("unsat"), "cvc5_unknown_or_timeout": st.count("unknown"), "cvc5_disagrees": bad}

    def _obligation_samples(self, n=3):
        """a few of the obligations this run discharged, written out: id, kind, back end, solver time, number of hypotheses, goal"""
        out = []
        seen_kinds = set()
        for o in self.obligs:
            if getattr(o, "status", None) != "unsat" or o.backend == "structural" or o.kind in seen_kinds:
                continue
            g = getattr(o, "goal_str", None)
            if g is None:
                try:
                    g = " ".join(o.goal.sexpr().split())[:400]
                except Exception:
                    continue
            nh = getattr(o, "n_hyps", None)
            if nh is None:
                try:
                    nh = len(o.hyps)
                except Exception:
                    nh = None
            seen_kinds.add(o.kind)
            out.append({"obligation": o.id, "kind": o.kind, "backend": o.backend, "solver_time_s": round(o.time, 3), "hypotheses": nh, "goal_smtlib": g})
            if len(out) >= n:
                break
        return out

    def absorb_meta(self, executed, contracted, used):
        """functions executed / callee contracts applied / primitive contracts used by a worker process"""
        for qn, (mod, line, sha) in executed.items():
            self.functions[qn] = {"file": f"score_analysis/{mod.replace('.', '/')}.py" if mod and mod != "None" else None, "line": line, "sha256_of_ast": sha}
        self.callee_contracts |= set(contracted)
        self.trusted |= set(used)

    def function(self, ex, cls, name, mod=None):
        try:
            seg, path, line = ex.segment(cls, name, mod) if cls is None else ex.segment(cls, name)
        except Exception:
            return
        if seg is None:
            return
        q = f"{cls + '.' if cls else ''}{name}"
        self.functions[q] = {"file": os.path.relpath(path, REPO), "line": line, "sha256": hashlib.sha256(seg.encode()).hexdigest()[:16]}

    # -------- finishing --------
    def finish(self, level_claimed="proof"):
        from . import engine, prims
        self.absorb_meta(engine.EXECUTED, engine.CONTRACTED, prims.USED)
        evdir = os.environ.get("VERIF_EVIDENCE_DIR", os.path.join(ROOT, "evidence"))
        rpdir = os.environ.get("VERIF_REPLAY_DIR", os.path.join(ROOT, "replays"))
        os.makedirs(evdir, exist_ok=True)
        os.makedirs(rpdir, exist_ok=True)
        known_keys = {k["key"]: k for k in self.known}
        lines, new_viol = [], []
        seen_known = set()
        for f in self.findings:
            if f.key in known_keys:
                if f.key not in seen_known:
                    seen_known.add(f.key)
                    lines.append(f"KNOWN-FINDING: property={self.pid} {known_keys[f.key]['what']} [{f.key}]")
                continue
            new_viol.append(f)
        exit_code = 0
        for n, f in enumerate(new_viol):
            rp = os.path.join(rpdir, f"{self.pid}-{hashlib.sha1((f.key + str(n)).encode()).hexdigest()[:10]}.json")
            json.dump({"property": self.pid, "clause": f.clause, "key": f.key, "what": f.what, "kind": f.kind,
                       "obligation": f.obligation, "solver_output": f.solver, "case": f.case,
                       "reproduced_on_real_code": f.reproduced,
                       "command": f"./check --replay {os.path.relpath(rp, ROOT)}"}, open(rp, "w"), indent=1, default=str)
            tail = "" if (f.case is not None and f.reproduced) else " no-failing-input-found"
            lines.append(f"VIOLATION property={self.pid} replay={rp}{tail}")
            lines.append(f"  clause={f.clause} key={f.key}: {f.what}")
            exit_code = 1
        for u in self.undecided:
            lines.append(f"UNDECIDED-BY-PROOF property={self.pid} obligation={u}")
        n_ob = len(self.obligs)
        n_dis = sum(1 for o in self.obligs if o.status == "unsat")
        by_backend, by_kind = {}, {}
        for o in self.obligs:
            if o.status == "unsat":
                by_backend[o.backend] = by_backend.get(o.backend, 0) + 1
            by_kind[o.kind] = by_kind.get(o.kind, 0) + 1
        stime = sum(o.time for o in self.obligs)
        slow = max(self.obligs, key=lambda o: o.time) if self.obligs else None
        known_failed = [o.id for o in self.obligs if o.status != "unsat" and o.meta.get("known")]
        all_proved = n_ob > 0 and n_dis == n_ob
        level = level_claimed if (all_proved or level_claimed != "proof") and not new_viol else "exploration"
        if level_claimed == "proof" and not all_proved:
            level = "exploration"
        cov = {
            "obligations": n_ob, "discharged": n_dis,
            "checker_cmd": f"./check {self.pid} --tier {self.tier}",
            "trusted_base": sorted(self.trusted),
            "evaluations": max(self.bounded["evaluations"], 1),
            "distinct_nontrivial": max(self.bounded["distinct_nontrivial"], 2) if self.bounded["evaluations"] else 2,
            "rule": self.bounded.get("rule", ""),
            "exhaustive": bool(self.bounded.get("exhaustive")),
            "samples": (self.samples[:12] + self._obligation_samples()) or ["(no samples recorded)"],
            "explanation": self.extra.get("explanation", ""),
            "second_solver": self._second_solver(), "functions_under_contract": self.functions, "callee_contracts_assumed_at_call_sites": sorted(self.callee_contracts),
            "obligations_by_kind": by_kind, "by_backend": by_backend,
            "solver_time_s": {"total": round(stime, 3), "max": round(slow.time, 3) if slow else 0, "slowest": slow.id if slow else None},
            "undischarged": [{"id": o.id, "status": o.status, "known_finding": bool(o.meta.get("known"))} for o in self.obligs if o.status != "unsat"][:50],
            "undecided": self.undecided[:50],
            "lemmas": self.lemmas, "vacuity": self.vacuity[:20], "engine_crosscheck_inputs": self.crosscheck,
            "bounded": {"bound": self.bounded.get("bound", ""), "clauses": self.bounded["clauses"],
                        "evaluations": self.bounded["evaluations"], "never_counted_as_proved": True},
            "known_findings_reported": sorted(seen_known), "notes": self.notes,
        }
        if not self.bounded["evaluations"]:
            cov["rule"] = cov["rule"] or "no bounded layer in this run"
        ev = {"property_id": self.pid, "tier": self.tier, "seed": self.seed, "level": level, "coverage": cov,
              "assumptions": ASSUMPTIONS + self.extra.get("assumptions", []), "wall_s": round(time.time() - self.t0, 2),
              "violations": len(new_viol)}
        json.dump(ev, open(os.path.join(evdir, f"{self.pid}.json"), "w"), indent=1, default=str)
        for ln in lines:
            print(ln)
        print(f"{self.pid} tier={self.tier}: obligations {n_dis}/{n_ob} discharged, bounded evaluations {self.bounded['evaluations']}, "
              f"known findings {len(seen_known)}, new violations {len(new_viol)}, undecided {len(self.undecided)}, level={level}, {time.time()-self.t0:.1f}s")
        return exit_code


def run_property(pid, tier, seed):
    mod = importlib.import_module(f"props.{pid.lower()}")
    chk = Check(pid, tier, seed)
    try:
        mod.run(chk)
    except Exception:
        traceback.print_exc()
        print(f"INTERNAL-ERROR property={pid} (checker crash; no verdict)")
        return 3
    return chk.finish(getattr(mod, "LEVEL", "proof"))


def replay(path):
    case = json.load(open(path))
    pid = case["property"]
    mod = importlib.import_module(f"props.{pid.lower()}")
    if case.get("case") is None:
        print(f"replay {path}: no concrete input recorded (obligation {case.get('obligation')}); solver output:\n{case.get('solver_output')}")
        return 0
    res = mod.replay(case["case"])
    if res:
        print(f"REPRODUCED property={pid} clause={case['clause']}: {res}")
        return 1
    print(f"not reproduced on {REPO}: property={pid} clause={case['clause']}")
    return 0


# ----------------------------------------------------------------------------------------------------------------
# parallel helpers (fork pool; work functions are module-level, results picklable)

def _pool_jobs():
    return int(os.environ.get("VERIF_JOBS", "16"))


def _pm_worker(fn, idx_items, conn):
    out = []
    for i, it in idx_items:
        try:
            out.append((i, True, fn(it)))
        except BaseException as e:          # noqa: BLE001 - reported to the parent
            out.append((i, False, f"{type(e).__name__}: {e}\n{traceback.format_exc()}"))
    conn.send(out)
    conn.close()


def parallel_map(fn, items, jobs=None, chunksize=1):
    """fork-based map with non-daemonic workers (workers may start their own solver processes)"""
    import multiprocessing as mp
    items = list(items)
    jobs = min(jobs or _pool_jobs(), max(1, len(items)))
    if jobs <= 1 or len(items) <= 1:
        return [fn(i) for i in items]
    ctx = mp.get_context("fork")
    procs = []
    for k in range(jobs):
        chunk = [(i, it) for i, it in enumerate(items) if i % jobs == k]
        pc, cc = ctx.Pipe(duplex=False)
        p = ctx.Process(target=_pm_worker, args=(fn, chunk, cc), daemon=False)
        p.start()
        cc.close()
        procs.append((p, pc))
    res = [None] * len(items)
    for p, pc in procs:
        try:
            for i, ok, v in pc.recv():
                if not ok:
                    raise RuntimeError(f"worker failed: {v}")
                res[i] = v
        finally:
            p.join()
    return res


def run_bounded(chk, items, evalfn, chunks=64):
    """evalfn(list_of_items) -> (counts {clause: [evals, nontrivial]}, violations [(clause, key, what, case)], samples)"""
    items = list(items)
    if not items:
        return
    k = max(1, min(chunks, len(items)))
    parts = [items[i::k] for i in range(k)]
    pid = chk.pid

    def guarded(part, evalfn=evalfn, pid=pid):
        """an exception escaping the evaluation of a case is raised by the real code on an input of the bounded layer: it is reported
        as a violation for that case (with the traceback's last frame), not as a crash of the checker"""
        try:
            return evalfn(part)
        except Exception:        # noqa: BLE001
            counts, viols, samples = {}, [], []
            for it in part:
                try:
                    c_, v_, s_ = evalfn([it])
                except Exception as e:        # noqa: BLE001
                    import traceback
                    tb = traceback.extract_tb(e.__traceback__)
                    where = f"{os.path.basename(tb[-1].filename)}:{tb[-1].lineno} in {tb[-1].name}" if tb else "?"
                    c_, s_ = {"raised": [1, 1]}, []
                    v_ = [("raised", f"{pid}/bounded/raised-{type(e).__name__}", f"the real code raised {type(e).__name__}: {e} (at {where}) on the bounded-layer case {str(it)[:400]}",
                           it if isinstance(it, dict) else {"item": str(it)[:400]})]
                for cl, (n, nt) in c_.items():
                    a = counts.setdefault(cl, [0, 0])
                    a[0] += n
                    a[1] += nt
                viols += list(v_)
                samples += list(s_)
            return counts, viols, samples
    for counts, viols, samples in parallel_map(guarded, parts):
        for cl, (n, nt) in counts.items():
            chk.count(cl, n, nt)
        for cl, key, what, case in viols:
            chk.violation(cl, key, what, case)
        for s_ in samples:
            if len(chk.samples) < 6:
                chk.samples.append(s_)
