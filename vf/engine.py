"""pyvc -- symbolic executor / VC generator over the *real* Python source of score_analysis.

The functions are located by qualified name in the files under $VERIF_REPO/score_analysis, parsed with `ast` on
every run and their statement lists are interpreted over symbolic values.  What the interpretation drops or
abstracts is listed in DESIGN.md 3.1.  Outside the supported subset the engine raises `Unsupported`, which is
never a verdict.

Values
  python constants (int/float/bool/str/None/tuple/list/dict/set)   concrete
  z3 ExprRef (Int / Real / Bool)                                  symbolic python/NumPy scalar
  FV(v, nan)                                                     real with a NaN tag (and optional `fin` tag)
  T(axes, elem)                                                  symbolic tensor: named axes + element function
  Obj(cls, attrs), EnumVal, PyRaise
"""
import ast
import itertools
import os
import z3
from fractions import Fraction

from z3 import (And, ArraySort, BoolSort, BoolVal, Const, ExprRef, Function, If, Implies, Int, IntSort, IntVal, Not, Or,
                RealSort, RealVal, Select, Solver, ToInt, ToReal, is_arith, is_bool, is_int, is_int_value, is_true,
                is_false, simplify, substitute, unsat)


class Unsupported(Exception):
    pass


CONTINUE, RESTART = object(), object()


class PyRaise:
    def __init__(self, exc, node=None):
        self.exc, self.node = exc, node

    def __repr__(self):
        return f"raise {self.exc}"


class Axis:
    _ids = itertools.count()

    def __init__(self, name, size):
        self.name, self.size, self.id = name, size, next(Axis._ids)

    def __repr__(self):
        return f"<{self.name}:{self.size}>"

    def is_one(self):
        return isinstance(self.size, int) and self.size == 1

    def concrete(self):
        return isinstance(self.size, int)


EXECUTED = {}      # functions of the repository whose bodies were executed symbolically in this process: name -> (module, line, sha)
CONTRACTED = set()  # callee contracts (sidecar) that replaced a body at a call site in this process


class FV:
    """real value with NaN tag.  `nan` is a python bool or z3 Bool; when nan holds `v` is meaningless."""

    def __init__(self, v, nan=False, fin=None):
        self.v, self.nan, self.fin = v, nan, fin

    def __repr__(self):
        return f"FV({self.v}, nan={self.nan})"


class T:
    """tensor: elem(*idx) -> scalar value; idx are python ints or z3 Int terms, one per axis.
    sym   = (z3 Array, length term) when the tensor *is* that named 1-D array (elem(i) == A[i])
    items = python list of scalars when the tensor is a ground 1-D array of concrete length
    prov  = provenance for the frame analysis: 'fresh' | 'param:<name>' | 'attr:<name>' | 'view:<prov>'"""

    def __init__(self, axes, elem, kind="real", prov="fresh", sym=None, items=None):
        self.axes, self.elem, self.kind, self.prov = tuple(axes), elem, kind, prov
        self.sym, self.items = sym, items
        self.mask = None
        self.facts = {}

    def __repr__(self):
        return f"T{self.axes}"

    @property
    def ndim(self):
        return len(self.axes)

    def with_(self, **kw):
        t = T(self.axes, self.elem, self.kind, self.prov, self.sym, self.items)
        t.mask = self.mask
        t.facts = dict(self.facts)
        for k, v in kw.items():
            setattr(t, k, v)
        return t


class Obj:
    _ids = itertools.count()

    def __init__(self, cls, **attrs):
        self.cls, self.attrs, self.id = cls, dict(attrs), next(Obj._ids)

    def __repr__(self):
        return f"Obj<{self.cls}#{self.id}>"


class EnumVal:
    def __init__(self, cls, name, value=None):
        self.cls, self.name, self.value = cls, name, value

    def __eq__(self, o):
        return isinstance(o, EnumVal) and (self.cls, self.name) == (o.cls, o.name)

    def __hash__(self):
        return hash((self.cls, self.name))

    def __repr__(self):
        return f"{self.cls}.{self.name}"


INF, NINF = "inf", "-inf"          # only arguments of nextafter / order-extreme defaults


def is_sym(v):
    return isinstance(v, ExprRef)


def is_inf(v):
    return isinstance(v, str) and v in (INF, NINF)


def is_scalar(v):
    return is_sym(v) or isinstance(v, (int, float, bool, FV))


def pyint(v):
    return isinstance(v, int) and not isinstance(v, bool)


def toR(v):
    if isinstance(v, FV):
        return toR(v.v)
    if isinstance(v, bool):
        return RealVal(1) if v else RealVal(0)
    if isinstance(v, (int, float)):
        f = Fraction(v)
        return RealVal(f"{f.numerator}/{f.denominator}")
    if is_sym(v) and is_int(v):
        return ToReal(v)
    if is_sym(v) and is_bool(v):
        return If(v, RealVal(1), RealVal(0))
    return v


def toI(v):
    if isinstance(v, bool):
        return IntVal(int(v))
    if isinstance(v, int):
        return IntVal(v)
    if is_sym(v) and is_bool(v):
        return If(v, IntVal(1), IntVal(0))
    return v


def toB(v):
    if isinstance(v, bool):
        return BoolVal(v)
    if isinstance(v, FV):
        raise Unsupported("truth value of float")
    return v


def intlike(v):
    return pyint(v) or (is_sym(v) and is_int(v))


def boollike(v):
    return isinstance(v, bool) or (is_sym(v) and is_bool(v))


def nan_of(v):
    return v.nan if isinstance(v, FV) else False


def b_and(*xs):
    xs = [x for x in xs if x is not True]
    if any(x is False for x in xs):
        return False
    if not xs:
        return True
    return And(*[toB(x) for x in xs]) if len(xs) > 1 else xs[0]


def b_or(*xs):
    xs = [x for x in xs if x is not False]
    if any(x is True for x in xs):
        return True
    if not xs:
        return False
    return Or(*[toB(x) for x in xs]) if len(xs) > 1 else xs[0]


def b_not(x):
    if isinstance(x, bool):
        return not x
    return Not(x)


def ite(c, a, b):
    """conditional on scalars (python / z3 / FV)"""
    if isinstance(c, bool):
        return a if c else b
    if isinstance(a, FV) or isinstance(b, FV):
        na, nb = nan_of(a), nan_of(b)
        nan = ite(c, na, nb)
        if isinstance(nan, bool) and not nan:
            return If(c, toR(a), toR(b))
        return FV(If(c, toR(a), toR(b)), nan)
    if boollike(a) and boollike(b):
        return If(c, toB(a), toB(b))
    if intlike(a) and intlike(b):
        return If(c, toI(a), toI(b))
    if a is b:
        return a
    if not is_scalar(a) or not is_scalar(b):
        raise Unsupported(f"ite on non-scalars {type(a)} {type(b)}")
    return If(c, toR(a), toR(b))


_UF = {}


def UF(name, *sorts):
    if name not in _UF:
        _UF[name] = Function(name, *sorts)
    return _UF[name]


ArrS = ArraySort(IntSort(), RealSort())


def scalar_binop(op, x, y):
    if isinstance(x, FV) or isinstance(y, FV):
        nan = b_or(nan_of(x), nan_of(y))
        r = scalar_binop(op, toR(x) if isinstance(x, FV) else x, toR(y) if isinstance(y, FV) else y)
        return FV(r, nan) if nan is not False else r
    if is_inf(x) or is_inf(y):
        raise Unsupported("arithmetic on infinity")
    if not is_sym(x) and not is_sym(y):
        table = {ast.Add: lambda: x + y, ast.Sub: lambda: x - y, ast.Mult: lambda: x * y, ast.Div: lambda: x / y,
                 ast.FloorDiv: lambda: x // y, ast.Mod: lambda: x % y, ast.Pow: lambda: x ** y,
                 ast.BitAnd: lambda: x & y, ast.BitOr: lambda: x | y}
        if isinstance(op, ast.Div) and pyint(x) and pyint(y):
            return Fraction(x, y) if y != 0 else x / y
        return table[type(op)]()
    if isinstance(op, (ast.BitAnd, ast.BitOr)):
        return b_and(toB(x), toB(y)) if isinstance(op, ast.BitAnd) else b_or(toB(x), toB(y))
    if intlike(x) and intlike(y) and isinstance(op, (ast.Add, ast.Sub, ast.Mult, ast.FloorDiv, ast.Mod)):
        X, Y = toI(x), toI(y)
        return {ast.Add: lambda: X + Y, ast.Sub: lambda: X - Y, ast.Mult: lambda: X * Y,
                ast.FloorDiv: lambda: X / Y, ast.Mod: lambda: X % Y}[type(op)]()
    if isinstance(x, Fraction):
        x = RealVal(f"{x.numerator}/{x.denominator}")
    if isinstance(y, Fraction):
        y = RealVal(f"{y.numerator}/{y.denominator}")
    X, Y = toR(x), toR(y)
    if isinstance(op, ast.Add):
        return X + Y
    if isinstance(op, ast.Sub):
        return X - Y
    if isinstance(op, ast.Mult):
        return X * Y
    if isinstance(op, ast.Div):
        return X / Y
    if isinstance(op, ast.Pow):
        if pyint(y) and 0 <= y <= 4:
            r = RealVal(1)
            for _ in range(y):
                r = r * X
            return r
        return UF("pow", RealSort(), RealSort(), RealSort())(X, Y)
    if isinstance(op, ast.FloorDiv):
        return ToReal(ToInt(X / Y))
    raise Unsupported(f"binop {op}")


def scalar_cmp(op, x, y):
    if isinstance(x, Fraction):
        x = toR(x)
    if isinstance(y, Fraction):
        y = toR(y)
    if isinstance(x, EnumVal) or isinstance(y, EnumVal):
        # Enum.__eq__ of the repository: value equality after coercion (BinaryLabel(other).value)
        xn = x.name if isinstance(x, EnumVal) else x
        yn = y.name if isinstance(y, EnumVal) else y
        if isinstance(x, EnumVal) and isinstance(y, str):
            yn = y if x.value is None else ("__v__", y)
            xn = x.name if x.value is None else ("__v__", x.value)
        if isinstance(y, EnumVal) and isinstance(x, str):
            xn = x if y.value is None else ("__v__", x)
            yn = y.name if y.value is None else ("__v__", y.value)
        r = xn == yn
        return r if isinstance(op, ast.Eq) else (not r)
    if isinstance(x, FV) or isinstance(y, FV):
        ok = b_not(b_or(nan_of(x), nan_of(y)))
        r = scalar_cmp(op, toR(x), toR(y))
        if isinstance(op, ast.NotEq):
            return b_or(b_not(ok), r)
        return b_and(ok, r)
    if is_inf(x) or is_inf(y):
        if is_sym(x) or is_sym(y):
            # finite symbolic value against an infinity
            lo = (isinstance(x, str) and x == NINF) or (isinstance(y, str) and y == INF)      # x < y certainly
            return {ast.Lt: lo, ast.LtE: lo, ast.Gt: not lo, ast.GtE: not lo, ast.Eq: False, ast.NotEq: True}[type(op)]
        fx = {INF: float("inf"), NINF: float("-inf")}[x] if is_inf(x) else x
        fy = {INF: float("inf"), NINF: float("-inf")}[y] if is_inf(y) else y
        return scalar_cmp(op, fx, fy)
    if not is_sym(x) and not is_sym(y):
        return {ast.Eq: lambda: x == y, ast.NotEq: lambda: x != y, ast.Lt: lambda: x < y, ast.LtE: lambda: x <= y,
                ast.Gt: lambda: x > y, ast.GtE: lambda: x >= y, ast.In: lambda: x in y, ast.NotIn: lambda: x not in y,
                ast.Is: lambda: x is y, ast.IsNot: lambda: x is not y}[type(op)]()
    if isinstance(op, (ast.Is, ast.IsNot)):
        return isinstance(op, ast.IsNot)   # a symbolic value is never None
    if isinstance(op, (ast.In, ast.NotIn)):
        raise Unsupported("symbolic membership")
    if is_sym(x) and is_sym(y) and x.sort() == y.sort() and not is_arith(x):
        return (x == y) if isinstance(op, ast.Eq) else (x != y)
    if boollike(x) or boollike(y):
        if boollike(x) and boollike(y) and isinstance(op, (ast.Eq, ast.NotEq)):
            return (toB(x) == toB(y)) if isinstance(op, ast.Eq) else (toB(x) != toB(y))
        x, y = toI(x) if boollike(x) else x, toI(y) if boollike(y) else y
    if intlike(x) and intlike(y):
        X, Y = toI(x), toI(y)
    else:
        X, Y = toR(x), toR(y)
    return {ast.Eq: lambda: X == Y, ast.NotEq: lambda: X != Y, ast.Lt: lambda: X < Y, ast.LtE: lambda: X <= Y,
            ast.Gt: lambda: X > Y, ast.GtE: lambda: X >= Y}[type(op)]()


def same_size(a, b):
    if isinstance(a, int) and isinstance(b, int):
        return a == b
    if is_sym(a) and is_sym(b):
        return a.eq(b) or simplify(a).eq(simplify(b))
    return False


def broadcast(*vals):
    """align tensors/scalars by position from the right (NumPy rule); returns (axes, [elem fns taking full idx])"""
    nd = max((v.ndim if isinstance(v, T) else 0) for v in vals)
    axes = [None] * nd
    for v in vals:
        if not isinstance(v, T):
            continue
        off = nd - v.ndim
        for k, a in enumerate(v.axes):
            cur = axes[off + k]
            if cur is None:
                axes[off + k] = a
            elif cur.is_one():
                axes[off + k] = a
            elif a.is_one() or a is cur or same_size(a.size, cur.size):
                pass
            else:
                raise Unsupported(f"cannot broadcast axes {cur} and {a}")
    fns = []
    for v in vals:
        if isinstance(v, T):
            off = nd - v.ndim

            def f(*idx, v=v, off=off):
                sub = [0 if a.is_one() else idx[off + k] for k, a in enumerate(v.axes)]
                return v.elem(*sub)
            fns.append(f)
        else:
            fns.append(lambda *idx, v=v: v)
    return tuple(axes), fns


def lift(fn, *vals, kind=None):
    if not any(isinstance(v, T) for v in vals):
        return fn(*vals)
    axes, fns = broadcast(*vals)
    if not axes:
        # NumPy: ufuncs / arithmetic on 0-d arrays return scalars
        return fn(*[f() for f in fns])
    if kind is None:
        ks = {v.kind for v in vals if isinstance(v, T)}
        kind = "real" if len(ks) != 1 else ks.pop()
    out = T(axes, lambda *idx: fn(*[f(*idx) for f in fns]), kind=kind)
    masks = [v.mask for v in vals if isinstance(v, T) and v.mask is not None]
    if masks:
        for m in masks[1:]:
            if m[1] is not masks[0][1]:
                raise Unsupported("operands selected by different masks")
        out.mask = masks[0]
    return out


class Path:
    """path condition: ordered list of (formula, is_branch).  Facts produced by primitive contracts are
    path-scoped (they are appended here, not to a global list)."""

    def __init__(self, entries=None):
        self.entries = list(entries or [])

    def copy(self):
        return Path(self.entries)

    def add(self, f, branch=False):
        if f is True:
            return
        if f is False:
            f = BoolVal(False)
        self.entries.append((f, branch))

    @property
    def pc(self):
        return [f for f, _ in self.entries]

    def __len__(self):
        return len(self.entries)


class Oblig:
    def __init__(self, oid, hyps, goal, kind="post", props=(), meta=None):
        self.id, self.hyps, self.goal, self.kind, self.props = oid, list(hyps), goal, kind, tuple(props)
        self.meta = meta or {}
        self.status, self.time, self.backend, self.detail = None, 0.0, None, None

    def __repr__(self):
        return f"Oblig({self.id}: {self.status})"


class Out:
    def __init__(self, path, value, env):
        self.path, self.value, self.env = path, value, env

    @property
    def raised(self):
        return isinstance(self.value, PyRaise)


class Exec:
    """One symbolic-execution context over the repository modules."""

    def __init__(self, modules, prims, contracts=None, invariants=None, transparent=None, ground=False):
        """modules: {modname: (path, source)}"""
        self.mods = {}
        self.src = {}
        import warnings
        for m, (p, s) in modules.items():
            with warnings.catch_warnings():
                warnings.simplefilter("ignore")
                self.mods[m] = ast.parse(s)
            self.src[m] = (p, s)
        self.prims, self.contracts, self.invariants = prims, contracts or {}, invariants or {}
        self.classes, self.cls_mod, self.globals = {}, {}, {}
        self.ground = ground
        self.obligs = []
        self.raises = []               # (pc list, exc) of callee raise paths met while executing
        self.fresh = itertools.count()
        self.locals = {}
        self.prim_log = []          # (primitive, args, result, enclosing function) of every primitive call, for role-based ghost values
        self.stores = []               # frame log: (target description, provenance)
        self.rng_calls = []            # names of RNG primitives reached
        self.calls = []                # (callee, lineno) log
        self.depth = 0
        self.feas_timeout = 300
        self.funcs, self.scope = {}, {m: {} for m in self.mods}
        for m, tree in self.mods.items():
            for n in tree.body:
                if isinstance(n, ast.ClassDef):
                    self.classes[n.name] = n
                    self.cls_mod[n.name] = m
                    isenum = any(isinstance(b, ast.Name) and b.id == "Enum" for b in n.bases)
                    self.scope[m][n.name] = ("enumcls" if isenum else "class", n.name)
                elif isinstance(n, ast.FunctionDef):
                    self.funcs[(m, n.name)] = n
                    self.scope[m][n.name] = ("func", m, n.name)
                elif isinstance(n, ast.Assign) and len(n.targets) == 1 and isinstance(n.targets[0], ast.Name):
                    self.globals[n.targets[0].id] = (m, n.value)
                    self.scope[m][n.targets[0].id] = ("global", m, n.value)
        exported = {}
        for m in self.mods:
            for k_, v in self.scope[m].items():
                exported.setdefault(k_, v)
        for m, tree in self.mods.items():
            for n in tree.body:
                if isinstance(n, ast.ImportFrom):
                    src_mod = (n.module or "").split(".")[-1]
                    for al in n.names:
                        nm = al.asname or al.name
                        if al.name in self.mods and (n.module in (None, "score_analysis") or n.level > 0 and not n.module):
                            self.scope[m].setdefault(nm, ("module", al.name))
                        elif src_mod in self.mods and al.name in self.scope[src_mod]:
                            self.scope[m].setdefault(nm, self.scope[src_mod][al.name])
                        elif al.name in exported and (n.module or "").startswith("score_analysis") or (n.level > 0 and al.name in exported):
                            self.scope[m].setdefault(nm, exported[al.name])
        self.exported = exported

    # ---------- helpers ----------
    def new(self, base, sort):
        return Const(f"{base}!{next(self.fresh)}", sort)

    def new_int(self, base="k"):
        return self.new(base, IntSort())

    def new_real(self, base="r"):
        return self.new(base, RealSort())

    def oblige(self, oid, path, goal, kind="safety", props=(), meta=None):
        if goal is True:
            return
        if goal is False:
            goal = BoolVal(False)
        self.obligs.append(Oblig(oid, path.pc if isinstance(path, Path) else path, goal, kind, props, meta))

    def find(self, cls, fn, mod=None):
        if cls is None:
            if mod is not None:
                return None, self.funcs[(mod, fn)]
            for (m, name), n in self.funcs.items():
                if name == fn:
                    return None, n
            raise KeyError(fn)
        c = cls
        while c in self.classes:
            node = self.classes[c]
            for f in node.body:
                if isinstance(f, ast.FunctionDef) and f.name == fn:
                    if any(isinstance(d, ast.Attribute) and d.attr == "setter" for d in f.decorator_list):
                        continue
                    return c, f
                if isinstance(f, ast.Assign) and len(f.targets) == 1 and isinstance(f.targets[0], ast.Name) \
                        and f.targets[0].id == fn and isinstance(f.value, ast.Name):
                    return self.find(c, f.value.id)       # class-level alias:  confusion_matrix = cm
            c = node.bases[0].id if node.bases and isinstance(node.bases[0], ast.Name) else None
        raise KeyError((cls, fn))

    def is_subclass(self, cls, base):
        c = cls
        while c in self.classes:
            if c == base:
                return True
            node = self.classes[c]
            c = node.bases[0].id if node.bases and isinstance(node.bases[0], ast.Name) else None
        return c == base

    def module_of(self, node):
        for (m, name), n in self.funcs.items():
            if n is node:
                return m
        for c, cn in self.classes.items():
            if node in cn.body:
                return self.cls_mod[c]
        return None

    def segment(self, cls, fn, mod=None):
        owner, node = self.find(cls, fn, mod)
        for m, tree in self.mods.items():
            for n in ast.walk(tree):
                if n is node:
                    return ast.get_source_segment(self.src[m][1], node), self.src[m][0], node.lineno
        return None, None, None

    # ---------- statements ----------
    def run(self, fn, env, path):
        outs = []
        self.block(list(fn.body), dict(env), path, outs, lambda e, p: outs.append(Out(p, None, e)))
        return outs

    def feasible(self, path, cond):
        if isinstance(cond, bool):
            return cond
        s = Solver()
        s.set("timeout", self.feas_timeout)
        s.add(path.pc + [cond])
        return s.check() != unsat

    def block(self, stmts, env, path, outs, k):
        while True:
            if not stmts:
                return k(env, path)
            s, rest = stmts[0], stmts[1:]
            try:
                r_ = self.stmt(s, rest, env, path, outs, k)
            except CalleeRaises as cr:
                # every path of a callee raised: the exception propagates out of this function (no try/except is modelled)
                outs.append(Out(path, cr.exc if isinstance(cr.exc, PyRaise) else PyRaise(str(cr.exc)), env))
                return
            if r_ is not CONTINUE:
                if isinstance(r_, tuple) and r_ and r_[0] is RESTART:
                    stmts = r_[1]
                    continue
                return r_
            stmts = rest

    def stmt(self, s, rest, env, path, outs, k):
        """executes one statement; returns CONTINUE to go on with `rest`, (RESTART, stmts) to continue with another list,
        anything else is the result of the block (the continuation has been taken)"""
        if True:
            if isinstance(s, ast.Expr):
                if not isinstance(s.value, ast.Constant):
                    self.ev(s.value, env, path)
            elif isinstance(s, ast.Pass):
                pass
            elif isinstance(s, (ast.Import, ast.ImportFrom)):
                pass
            elif isinstance(s, ast.Assign) and isinstance(s.value, ast.IfExp) and self.ifexp_needs_fork(s.value, env, path):
                # conditional expression choosing between non-numeric values under a symbolic test: fork like an if statement
                c = self.ev(s.value.test, env, path)
                for cond, sub in ((c, s.value.body), (Not(c), s.value.orelse)):
                    if not self.feasible(path, cond):
                        continue
                    p2 = path.copy()
                    p2.add(cond, True)
                    e2 = self.fork(env)
                    v = self.ev(sub, e2, p2)
                    for tgt in s.targets:
                        self.assign(tgt, v, e2, p2)
                    self.block(rest, e2, p2, outs, k)
                return
            elif isinstance(s, ast.Assign):
                forked = self.fork_call(s.value, env, path) if isinstance(s.value, ast.Call) else None
                if forked is not None and len(forked) == 1:
                    path.entries = list(forked[0].path.entries)
                    for tgt in s.targets:
                        self.assign(tgt, forked[0].value, env, path)
                    return CONTINUE
                if forked is not None:
                    # the callee returns on several paths whose values cannot be merged (e.g. arrays of different sizes):
                    # the caller continues once per callee path
                    for o in forked:
                        e2 = self.fork(env)
                        for tgt in s.targets:
                            self.assign(tgt, o.value, e2, o.path)
                        self.block(rest, e2, o.path, outs, k)
                    return
                v = self.ev(s.value, env, path)
                for tgt in s.targets:
                    self.assign(tgt, v, env, path)
            elif isinstance(s, ast.AnnAssign):
                if s.value is not None:
                    self.assign(s.target, self.ev(s.value, env, path), env, path)
            elif isinstance(s, ast.AugAssign):
                cur = self.ev(s.target, env, path)
                v = self.ev(s.value, env, path)
                if isinstance(cur, T) and not isinstance(s.target, ast.Subscript):
                    self.stores.append(("inplace " + ast.unparse(s.target), cur.prov, s.lineno))
                self.assign(s.target, self.binop(s.op, cur, v), env, path, aug=True)
            elif isinstance(s, ast.FunctionDef):
                env[s.name] = ("closure", s, env)
            elif isinstance(s, ast.Return):
                outs.append(Out(path, self.ev(s.value, env, path) if s.value else None, env))
                return
            elif isinstance(s, ast.Raise):
                outs.append(Out(path, PyRaise(self.exc_name(s.exc), s), env))
                return
            elif isinstance(s, ast.Assert):
                c = self.ev(s.test, env, path)
                if isinstance(c, bool):
                    if not c:
                        outs.append(Out(path, PyRaise("AssertionError", s), env))
                        return
                else:
                    if self.feasible(path, Not(c)):
                        p2 = path.copy()
                        p2.add(Not(c), True)
                        outs.append(Out(p2, PyRaise("AssertionError", s), env))
                    path.add(c, True)
            elif isinstance(s, ast.If):
                c = self.ev(s.test, env, path)
                if isinstance(c, T):
                    if c.ndim == 0:
                        c = c.elem()
                    else:
                        raise Unsupported(f"truth value of tensor line {s.lineno}")
                if isinstance(c, (list, tuple, dict, set, str)) or c is None:
                    c = bool(c)
                if not is_sym(c):
                    return (RESTART, (s.body if c else s.orelse) + rest)
                for cond, body in ((c, s.body), (Not(c), s.orelse)):
                    if not self.feasible(path, cond):
                        continue
                    p2 = path.copy()
                    p2.add(cond, True)
                    self.block(body + rest, self.fork(env), p2, outs, k)
                return
            elif isinstance(s, ast.While):
                return self.while_loop(s, rest, env, path, outs, k)
            elif isinstance(s, ast.For):
                return self.for_loop(s, rest, env, path, outs, k)
            elif isinstance(s, ast.Try):
                # only the idiom   try: name = <attr>   except AttributeError: name = <fallback>
                try:
                    ok = True
                    self.block(list(s.body), env, path, outs, lambda e, p: None)
                except Unsupported:
                    ok = False
                if not ok:
                    raise Unsupported(f"try statement line {s.lineno}")
            else:
                raise Unsupported(f"{type(s).__name__} line {getattr(s, 'lineno', '?')}")
            return CONTINUE

    def exc_name(self, e):
        if e is None:
            return "reraise"
        if isinstance(e, ast.Call):
            e = e.func
        return ast.unparse(e)

    def fork(self, env):
        """environments are copied on a fork; objects under construction (self in __init__) are copied too"""
        memo = {}

        def cp(v):
            if isinstance(v, Obj):
                if v.id not in memo:
                    o = Obj(v.cls)
                    o.id = v.id
                    memo[v.id] = o
                    o.attrs = {a: cp(x) for a, x in v.attrs.items()}
                return memo[v.id]
            if hasattr(v, "fork_copy"):
                if id(v) not in memo:
                    memo[id(v)] = v.fork_copy()
                return memo[id(v)]
            if isinstance(v, list):
                return [cp(x) for x in v]
            if isinstance(v, dict):
                return {a: cp(x) for a, x in v.items()}
            return v
        return {kk: (cp(v) if isinstance(v, (Obj, list, dict)) or hasattr(v, "fork_copy") else v) for kk, v in env.items()}

    def loop_key(self, s):
        return (self.cur_fn[-1] if self.cur_fn else None, type(s).__name__.lower(), self.loop_ordinal(s))

    cur_fn = []

    def loop_ordinal(self, s):
        fn = self.cur_node[-1] if self.cur_node else None
        if fn is None:
            return 0
        loops = [n for n in ast.walk(fn) if isinstance(n, (ast.For, ast.While))]
        loops.sort(key=lambda n: (n.lineno, n.col_offset))
        return loops.index(s)

    cur_node = []

    def modified_names(self, s):
        names = set()
        for n in ast.walk(s):
            tg = []
            if isinstance(n, ast.Assign):
                tg = n.targets
            elif isinstance(n, (ast.AugAssign, ast.AnnAssign)):
                tg = [n.target]
            elif isinstance(n, ast.For):
                tg = [n.target]
            for t in tg:
                for x in ast.walk(t):
                    if isinstance(x, ast.Name) and isinstance(x.ctx, ast.Store):
                        names.add(x.id)
                    if isinstance(x, ast.Subscript):
                        b = x.value
                        while isinstance(b, ast.Subscript):
                            b = b.value
                        if isinstance(b, ast.Name):
                            names.add(b.id)
        return sorted(names)

    def while_loop(self, s, rest, env, path, outs, k):
        key = self.loop_key(s)
        spec = self.invariants.get(key)
        if spec is None:
            raise Unsupported(f"while loop without a sidecar invariant {key}")
        inv = spec["inv"]
        mod = self.modified_names(s)
        tag = f"{key[0]}/loop{key[2]}"
        self.oblige(f"{tag}/inv-init", path, inv(self, env, path), "loop-invariant", spec.get("props", ()))
        henv = dict(env)
        for v in mod:
            old = env.get(v)
            if is_sym(old):
                henv[v] = self.new(v, old.sort())
            elif isinstance(old, (int, float)) or old is None:
                henv[v] = self.new(v, RealSort())
            else:
                raise Unsupported(f"havoc of {v}: {type(old)}")
        hpath = path.copy()
        hpath.add(inv(self, henv, hpath))
        c = self.ev(s.test, henv, hpath)
        bpath = hpath.copy()
        bpath.add(c, True)

        def at_end(e2, p2):
            self.oblige(f"{tag}/inv-step#{next(self.fresh)}", p2, inv(self, e2, p2), "loop-invariant", spec.get("props", ()))
        bouts = []
        self.block(list(s.body), dict(henv), bpath, bouts, at_end)
        if bouts:
            raise Unsupported("return/raise inside while body")
        hpath.add(b_not(c), True)
        return self.block(rest, henv, hpath, outs, k)

    def for_loop(self, s, rest, env, path, outs, k):
        it = self.ev(s.iter, env, path)
        if isinstance(it, (dict, set)) or type(it).__name__ in ("dict_values", "dict_keys", "dict_items"):
            it = list(it)
        # concrete iteration: unroll
        if isinstance(it, (list, tuple)) and not (it and it[0] == "range" and len(it) == 2 and not pyint(it[1])) \
                and not (isinstance(it, tuple) and it and it[0] in ("zip", "enumerate")):
            seq = it
            if it and it[0] == "range":
                seq = list(range(it[1]))
            return self.unroll(s, list(seq), rest, env, path, outs, k)
        if isinstance(it, T) and it.ndim == 1 and it.axes[0].concrete():
            seq = [it.elem(j) for j in range(it.axes[0].size)]
            return self.unroll(s, seq, rest, env, path, outs, k)
        key = self.loop_key(s)
        spec = self.invariants.get(key)
        if spec is not None and "handler" in spec:
            spec["handler"](self, s, it, env, path)
            return self.block(rest, env, path, outs, k)
        if it and isinstance(it, tuple) and it[0] == "range" and len(it) == 2:
            self.map_loop(s, it[1], env, path)
            return self.block(rest, env, path, outs, k)
        # `for j, xj in enumerate(x)` over a 1-d array of symbolic length = `for j in range(len(x)): xj = x[j]; ...`
        if isinstance(s.iter, ast.Call) and isinstance(s.iter.func, ast.Name) and s.iter.func.id == "enumerate" and len(s.iter.args) == 1 and not s.iter.keywords \
                and isinstance(s.target, ast.Tuple) and len(s.target.elts) == 2 and all(isinstance(e_, ast.Name) for e_ in s.target.elts):
            x = self.ev(s.iter.args[0], env, path)
            if isinstance(x, T) and x.ndim >= 1:
                jn, xn = s.target.elts
                first = ast.Assign(targets=[ast.Name(id=xn.id, ctx=ast.Store())],
                                   value=ast.Subscript(value=s.iter.args[0], slice=ast.Name(id=jn.id, ctx=ast.Load()), ctx=ast.Load()))
                s2 = ast.For(target=ast.Name(id=jn.id, ctx=ast.Store()), iter=s.iter, body=[first] + list(s.body), orelse=[])
                ast.copy_location(s2, s)
                ast.fix_missing_locations(s2)
                self.map_loop(s2, x.axes[0].size, env, path)
                return self.block(rest, env, path, outs, k)
        raise Unsupported(f"for loop over symbolic iterable without a handler {key}")

    def unroll(self, s, seq, rest, env, path, outs, k):
        if not seq:
            return self.block(list(s.orelse) + rest, env, path, outs, k)
        body = []
        # rewrite as sequential statements via continuation
        def step(i, e, p):
            if i == len(seq):
                return self.block(rest, e, p, outs, k)
            self.assign(s.target, seq[i], e, p)
            return self.block(list(s.body), e, p, outs, lambda e2, p2: step(i + 1, e2, p2))
        return step(0, env, path)

    def map_loop(self, s, n, env, path):
        """generalised map loop: every store is  target[..., j, <fixed>] = expr  into one array, and every read of that
        array inside the body also has `j` at the same axis -> iterations are independent; execute the body once with a
        symbolic j from the pre-loop state and read each row from its own iteration."""
        if not isinstance(s.target, ast.Name):
            raise Unsupported("map loop target")
        jname = s.target.id
        tnames = set()
        temps = set()
        for st_ in s.body:
            if isinstance(st_, ast.Assign) and len(st_.targets) == 1 and isinstance(st_.targets[0], ast.Name):
                temps.add(st_.targets[0].id)          # loop-local temporary (must be assigned before it is read: checked below)
                continue
            if not (isinstance(st_, ast.Assign) and isinstance(st_.targets[0], ast.Subscript)
                    and isinstance(st_.targets[0].value, ast.Name)):
                raise Unsupported(f"for loop line {s.lineno} is not a map loop; needs an invariant")
            tnames.add(st_.targets[0].value.id)
        # a temporary carried from one iteration to the next would make the iterations dependent
        seen_ = set()
        for st_ in s.body:
            reads = {n.id for n in ast.walk(st_.value) if isinstance(n, ast.Name)}
            if (reads & temps) - seen_:
                raise Unsupported(f"for loop line {s.lineno}: temporary read before it is assigned in the iteration (loop-carried)")
            if isinstance(st_.targets[0], ast.Name):
                seen_.add(st_.targets[0].id)
        body_mod = ast.Module(body=list(s.body), type_ignores=[])
        info = {}
        for tname in sorted(tnames):
            pos = set()
            nfix = None
            for node in ast.walk(body_mod):
                if isinstance(node, ast.Subscript) and isinstance(node.value, ast.Name) and node.value.id == tname:
                    elts = node.slice.elts if isinstance(node.slice, ast.Tuple) else [node.slice]
                    where = [k_ for k_, e_ in enumerate(elts) if isinstance(e_, ast.Name) and e_.id == jname]
                    if len(where) != 1:
                        raise Unsupported("map loop: row access without the loop index (iterations not independent)")
                    lead = 1 if (isinstance(elts[0], ast.Constant) and elts[0].value is Ellipsis) else 0
                    pos.add((where[0] - lead, lead))
                    nfix = len(elts) - 1
            if len(pos) != 1:
                raise Unsupported("map loop: loop index at different axes")
            info[tname] = (pos.pop(), nfix)
        j = self.new_int("j")
        env2 = dict(env)
        env2[jname] = j
        p2 = path.copy()
        p2.add(And(0 <= j, j < toI(n)))
        body_outs = []
        ends = []
        self.block(list(s.body), env2, p2, body_outs, lambda e_, p_: ends.append((p_, e_)))
        if body_outs or len(ends) != 1:
            raise Unsupported("map loop body forks or returns")
        (pend, eafter), = ends
        extra = pend.entries[len(p2.entries):]
        for tname, ((jpos, lead), nfix) in info.items():
            before = env[tname]
            after = eafter[tname]
            ax = (before.ndim - nfix + jpos) if lead else jpos

            def elem(*idx, after=after, ax=ax):
                v = after.elem(*idx)
                return subst_scalar(v, j, toI(idx[ax]))
            env[tname] = T(after.axes, elem, kind=after.kind)
        self.map_last = {"j": j, "n": n, "path": pend, "env": eafter}
        self.map_facts = getattr(self, "map_facts", [])
        self.map_facts.append((j, n, [f for f, _ in extra]))
        return

    def assign(self, tgt, v, env, path, aug=False):
        if isinstance(tgt, ast.Name):
            env[tgt.id] = v
            return
        if isinstance(tgt, (ast.Tuple, ast.List)):
            if isinstance(v, T) and v.ndim >= 1 and v.axes[0].concrete():
                v = [self.getitem_items(v, [("idx", i)] + [("slice", None, None, None)] * (v.ndim - 1), path) for i in range(v.axes[0].size)]
            if len(tgt.elts) != len(v):
                raise Unsupported("unpack length mismatch")
            for t, x in zip(tgt.elts, v):
                self.assign(t, x, env, path)
            return
        if isinstance(tgt, ast.Attribute):
            o = self.ev(tgt.value, env, path)
            if isinstance(o, Obj):
                # property setter?
                try:
                    c = o.cls
                    while c in self.classes:
                        for f in self.classes[c].body:
                            if isinstance(f, ast.FunctionDef) and f.name == tgt.attr and any(
                                    isinstance(d, ast.Attribute) and d.attr == "setter" for d in f.decorator_list):
                                self.call_node(c, f, [o, v], {}, path)
                                return
                        node = self.classes[c]
                        c = node.bases[0].id if node.bases and isinstance(node.bases[0], ast.Name) else None
                except KeyError:
                    pass
                if o.id <= getattr(self, "obj_watermark", -1):
                    self.stores.append((f"attr {o.cls}.{tgt.attr}", "preexisting-object", getattr(tgt, "lineno", 0)))
                o.attrs[tgt.attr] = v
                return
        if isinstance(tgt, ast.Subscript):
            base = self.ev(tgt.value, env, path)
            if isinstance(base, dict):
                base[self.ev(tgt.slice, env, path)] = v
                return
            if isinstance(base, list):
                i = self.ev(tgt.slice, env, path)
                if pyint(i):
                    base[i] = v
                    return
            if isinstance(base, T):
                self.stores.append(("setitem " + ast.unparse(tgt.value), base.prov, getattr(tgt, "lineno", 0)))
            new = self.setitem(base, tgt.slice, v, env, path)
            self.assign(tgt.value, new, env, path)
            return
        raise Unsupported("assign " + ast.dump(tgt)[:80])

    # ---------- expressions ----------
    def binop(self, op, a, b):
        if isinstance(a, SymSet) and isinstance(b, SymSet) and isinstance(op, ast.BitOr):
            return a | b
        if isinstance(a, (tuple, list)) and isinstance(b, (tuple, list)) and isinstance(op, ast.Add):
            return type(a)(list(a) + list(b)) if isinstance(a, tuple) else list(a) + list(b)
        if isinstance(a, str) and isinstance(b, str) and isinstance(op, ast.Add):
            return a + b
        if isinstance(a, (list, tuple)) and not isinstance(b, (list, tuple)) and isinstance(b, T):
            a = self.prims["np.asarray"](self, None, a)
        return lift(lambda x, y: scalar_binop(op, x, y), a, b)

    def ev(self, e, env, path):
        m = getattr(self, "ev_" + type(e).__name__, None)
        if m is None:
            raise Unsupported(f"{type(e).__name__} line {getattr(e, 'lineno', '?')}")
        return m(e, env, path)

    def ev_Constant(self, e, env, path):
        return e.value

    def ev_Name(self, e, env, path):
        if e.id in env:
            return env[e.id]
        if e.id in self.prims:
            return ("prim", e.id)
        if e.id in ("int", "float", "bool", "str", "list", "tuple", "dict", "set"):
            return {"int": int, "float": float, "bool": bool, "str": str, "list": list, "tuple": tuple, "dict": dict, "set": set}[e.id]
        mod = env.get("__module__")
        r = self.scope.get(mod, {}).get(e.id) if mod else None
        if r is None:
            r = self.exported.get(e.id)
        if r is not None:
            if r[0] == "global":
                return self.ev(r[2], {"__module__": r[1]}, path)
            return r
        raise Unsupported("name " + e.id)

    def ev_Tuple(self, e, env, path):
        out = []
        for x in e.elts:
            if isinstance(x, ast.Starred):
                v = self.ev(x.value, env, path)
                out.extend(v)
            else:
                out.append(self.ev(x, env, path))
        return tuple(out)

    def ev_List(self, e, env, path):
        return list(self.ev_Tuple(e, env, path))

    def ev_Dict(self, e, env, path):
        return {self.ev(k, env, path): self.ev(v, env, path) for k, v in zip(e.keys, e.values)}

    def ev_Set(self, e, env, path):
        return {self.ev(k, env, path) for k in e.elts}

    def ev_JoinedStr(self, e, env, path):
        return "<fstring>"

    def ev_BinOp(self, e, env, path):
        return self.binop(e.op, self.ev(e.left, env, path), self.ev(e.right, env, path))

    def ev_UnaryOp(self, e, env, path):
        if isinstance(e.op, ast.USub) and ast.unparse(e.operand) == "np.inf":
            return NINF
        v = self.ev(e.operand, env, path)
        if isinstance(e.op, ast.Not):
            if isinstance(v, (list, tuple, dict, set, str)) or v is None:
                return not v
            return lift(lambda u: b_not(u), v)
        if isinstance(e.op, ast.USub):
            return lift(lambda u: scalar_binop(ast.Sub(), 0, u) if not isinstance(u, (int, float)) else -u, v)
        if isinstance(e.op, ast.Invert):
            return lift(lambda u: b_not(u), v, kind="bool")
        if isinstance(e.op, ast.UAdd):
            return v
        raise Unsupported("unary")

    def ev_Compare(self, e, env, path):
        vals = [self.ev(e.left, env, path)] + [self.ev(c, env, path) for c in e.comparators]
        parts = []
        for op, a, b in zip(e.ops, vals, vals[1:]):
            if isinstance(op, (ast.Is, ast.IsNot)):
                r = (a is None) if b is None else ((b is None and False) or a is b)
                parts.append(r if isinstance(op, ast.Is) else (not r))
                continue
            if isinstance(op, (ast.In, ast.NotIn)) and isinstance(b, T) and b.ndim == 1 and b.axes[0].concrete() and not is_sym(a) and not isinstance(a, T):
                its = [b.elem(q) for q in range(b.axes[0].size)]
                if all(not is_sym(v) for v in its):
                    r = a in its
                    parts.append(r if isinstance(op, ast.In) else (not r))
                    continue
            if isinstance(op, (ast.In, ast.NotIn)) and not isinstance(b, T):
                if isinstance(a, (T,)) or is_sym(a):
                    raise Unsupported("symbolic membership test")
                r = a in b
                parts.append(r if isinstance(op, ast.In) else (not r))
                continue
            if isinstance(op, (ast.Eq, ast.NotEq)) and isinstance(a, (str, tuple, list, set, dict, type(None))) \
                    and isinstance(b, (str, tuple, list, set, dict, type(None))):
                parts.append((a == b) if isinstance(op, ast.Eq) else (a != b))
                continue
            if isinstance(op, (ast.Eq, ast.NotEq)) and (a is None or b is None):
                parts.append((a is b) if isinstance(op, ast.Eq) else (a is not b))
                continue
            parts.append(lift(lambda x, y, op=op: scalar_cmp(op, x, y), a, b, kind="bool"))
        if len(parts) == 1:
            return parts[0]
        return lift(lambda *us: b_and(*us), *parts, kind="bool")

    def ev_BoolOp(self, e, env, path):
        """python semantics: `a or b` / `a and b` return one of the operands; short-circuit on concrete values"""
        isand = isinstance(e.op, ast.And)

        def truth(v):
            if isinstance(v, T) and v.ndim == 0:
                v = v.elem()
            if isinstance(v, bool):
                return v
            if v is None or isinstance(v, (list, tuple, dict, set, str)):
                return bool(v)
            if isinstance(v, (int, float)):
                return v != 0
            if isinstance(v, (Obj, EnumVal)):
                return True
            if isinstance(v, tuple):
                return True
            if is_sym(v):
                return v if is_bool(v) else (v != 0)
            if isinstance(v, T):
                raise Unsupported("truth value of tensor in boolean operator")
            return True
        vals = []
        for sub in e.values:
            v = self.ev(sub, env, path)
            if isinstance(v, T) and v.ndim == 0:
                v = v.elem()
            t_ = truth(v)
            if is_sym(t_):
                # decided by the path condition?
                if not self.feasible(path, Not(t_)):
                    t_ = True
                elif not self.feasible(path, t_):
                    t_ = False
            vals.append((v, t_))
            if isinstance(t_, bool) and (t_ != isand):
                break            # short circuit: this operand decides
        res = vals[-1][0]
        for v, t_ in reversed(vals[:-1]):
            if isinstance(t_, bool):
                res = res if (t_ == isand) else v
                continue
            allbool = boollike(v) and boollike(res)
            if allbool:
                res = b_and(toB(v), toB(res)) if isand else b_or(toB(v), toB(res))
            else:
                res = self.merge_vals(t_, res, v) if isand else self.merge_vals(t_, v, res)
        return res

    def ev_IfExp(self, e, env, path):
        c = self.ev(e.test, env, path)
        if isinstance(c, T) and c.ndim == 0:
            c = c.elem()
        if not is_sym(c):
            return self.ev(e.body if c else e.orelse, env, path)
        pa, pb = path.copy(), path.copy()
        pa.add(c, True)
        pb.add(Not(c), True)
        fa, fb = self.feasible(path, c), self.feasible(path, Not(c))
        if fa and not fb:
            return self.ev(e.body, env, path)
        if fb and not fa:
            return self.ev(e.orelse, env, path)
        a, b = self.ev(e.body, env, pa), self.ev(e.orelse, env, pb)
        self.absorb(path, pa, c)
        self.absorb(path, pb, Not(c))
        return self.merge_vals(c, a, b)

    def absorb(self, path, sub, cond):
        for f, br in sub.entries[len(path.entries) + 1:]:
            path.add(Implies(cond, f))

    def merge_vals(self, c, a, b):
        if a is b:
            return a
        if isinstance(a, (tuple, list)) and isinstance(b, (tuple, list)) and len(a) == len(b):
            return type(a)(self.merge_vals(c, x, y) for x, y in zip(a, b))
        if isinstance(a, Obj) and isinstance(b, Obj) and a.cls == b.cls and set(a.attrs) == set(b.attrs):
            return Obj(a.cls, **{k_: self.merge_vals(c, a.attrs[k_], b.attrs[k_]) for k_ in a.attrs})
        if isinstance(a, (EnumVal, str, type(None))) or isinstance(b, (EnumVal, str, type(None))):
            if type(a) is type(b) and a == b:
                return a
            raise Unsupported("merge of distinct non-numeric values")
        return lift(lambda x, y: ite(c, x, y), a, b)

    def ev_Lambda(self, e, env, path):
        return ("lambda", e, env)

    def ev_ListComp(self, e, env, path):
        if len(e.generators) != 1:
            raise Unsupported("nested comprehension")
        g = e.generators[0]
        it = self.ev(g.iter, env, path)
        if isinstance(it, T):
            if it.ndim >= 1 and it.axes[0].concrete():
                it = [self.getitem_items(it, [("idx", i)] + [("slice", None, None, None)] * (it.ndim - 1), path) for i in range(it.axes[0].size)]
            else:
                h = self.invariants.get(("comprehension", e.lineno))
                if h:
                    return h(self, e, it, env, path)
                if it.ndim == 1 and not g.ifs and it.mask is None:
                    # [f(x) for x in a] over a symbolic 1-d array with a scalar-valued element expression: an array over the same
                    # axis whose k-th entry is f(a[k]) (expression evaluated per index; must be pure)
                    env0 = dict(env)     # the comprehension sees the bindings of *now* (the enclosing loop rebinds later)

                    def elem_at(k, it=it):
                        env2 = dict(env0)
                        self.assign(g.target, it.elem(k), env2, path)
                        return self.ev(e.elt, env2, path)
                    probe = elem_at(self.new_int("lc"))
                    if isinstance(probe, (T, Obj, list, tuple, dict, str)) or probe is None:
                        raise Unsupported(f"comprehension over symbolic tensor with non-scalar element line {e.lineno}")
                    kind = "int" if (pyint(probe) or (is_sym(probe) and getattr(probe, "sort", lambda: None)() == IntSort())) else "real"
                    return T((it.axes[0],), elem_at, kind=kind, prov="fresh")
                raise Unsupported(f"comprehension over symbolic tensor line {e.lineno}")
        if isinstance(it, tuple) and it and it[0] == "range":
            if not pyint(it[1]):
                raise Unsupported("comprehension over symbolic range")
            it = list(range(it[1]))
        if isinstance(it, dict):
            it = list(it.keys())
        out = []
        for x in it:
            env2 = dict(env)
            self.assign(g.target, x, env2, path)
            ok = True
            for cond in g.ifs:
                c = self.ev(cond, env2, path)
                if is_sym(c):
                    raise Unsupported("symbolic comprehension filter")
                ok = ok and bool(c)
            if ok:
                out.append(self.ev(e.elt, env2, path))
        return out

    def ev_GeneratorExp(self, e, env, path):
        return self.ev_ListComp(e, env, path)

    def ev_DictComp(self, e, env, path):
        g = e.generators[0]
        it = self.ev(g.iter, env, path)
        out = {}
        for x in it:
            env2 = dict(env)
            self.assign(g.target, x, env2, path)
            out[self.ev(e.key, env2, path)] = self.ev(e.value, env2, path)
        return out

    def ev_Starred(self, e, env, path):
        raise Unsupported("starred")

    def ev_Attribute(self, e, env, path):
        dotted = ast.unparse(e)
        if dotted == "np.inf":
            return INF
        if dotted == "np.nan":
            return FV(RealVal(0), True)
        if dotted == "np.newaxis":
            return None
        if dotted in self.prims:
            return ("prim", dotted)
        b = self.ev(e.value, env, path)
        return self.getattr(b, e.attr, path, dotted)

    def getattr(self, b, attr, path, dotted=""):
        if isinstance(b, Obj) and b.cls == "Generator":
            if "rng." + attr in self.prims:
                return ("prim", "rng." + attr)
            raise Unsupported(f"Generator.{attr}")
        if isinstance(b, Obj):
            if attr in b.attrs:
                return b.attrs[attr]
            try:
                owner, f = self.find(b.cls, attr)
            except KeyError:
                raise Unsupported(f"attr {b.cls}.{attr}")
            if any(isinstance(d, ast.Name) and d.id == "property" for d in f.decorator_list):
                return self.call_fn(b.cls, attr, [b], {}, path)
            return ("method", b, attr)
        if isinstance(b, tuple) and b and b[0] == "module":
            r = self.scope[b[1]].get(attr)
            if r is None:
                raise Unsupported(f"attr {b[1]}.{attr}")
            if r[0] == "global":
                return self.ev(r[2], {"__module__": r[1]}, path)
            return r
        if isinstance(b, tuple) and b and b[0] == "enumcls":
            return self.enum_member(b[1], attr)
        if isinstance(b, tuple) and b and b[0] == "class":
            owner, f = self.find(b[1], attr)
            return ("unbound", b[1], attr)
        if isinstance(b, tuple) and b and b[0] == "super":
            return ("supermethod", b[1], b[2], attr)
        if isinstance(b, EnumVal):
            if attr == "name":
                return b.name
            if attr == "value":
                return b.value if b.value is not None else b.name
        if isinstance(b, T) or is_scalar(b):
            key = "ndarray." + attr
            if key in self.prims:
                fn = self.prims[key]
                if getattr(fn, "is_property", False):
                    return fn(self, path, b)
                return ("bound", key, b)
        if (isinstance(b, (list, dict, str, set, tuple)) or hasattr(b, "fork_copy")) and hasattr(b, attr):
            return ("pymethod", b, attr)
        raise Unsupported("attr " + (dotted or attr))

    def enum_member(self, cls, name):
        node = self.classes[cls]
        for f in node.body:
            if isinstance(f, ast.Assign) and isinstance(f.targets[0], ast.Name) and f.targets[0].id == name:
                return EnumVal(cls, name, f.value.value if isinstance(f.value, ast.Constant) else None)
        raise Unsupported(f"enum member {cls}.{name}")

    def enum_members(self, cls):
        node = self.classes[cls]
        out = []
        for f in node.body:
            if isinstance(f, ast.Assign) and isinstance(f.targets[0], ast.Name) and isinstance(f.value, ast.Constant):
                out.append(EnumVal(cls, f.targets[0].id, f.value.value))
        return out

    def enum_coerce(self, cls, v):
        """Enum(value) lookup"""
        if isinstance(v, EnumVal):
            if v.cls == cls:
                return v
            v = v.value if v.value is not None else v.name
        for m in self.enum_members(cls):
            if m.value == v:
                return m
        return PyRaise("ValueError")

    def ev_Subscript(self, e, env, path):
        b = self.ev(e.value, env, path)
        if isinstance(b, Obj):
            return self.call_method(b.cls, "__getitem__", b, [self.ev(e.slice, env, path)], {}, path, e)
        if isinstance(b, dict):
            key = self.ev(e.slice, env, path)
            if is_sym(key):
                # lookup with a symbolic key among concrete keys: ite chain + KeyError obligation
                items = [(k_, v) for k_, v in b.items() if pyint(k_) or isinstance(k_, (float, bool))]
                if len(items) != len(b) or not items:
                    raise Unsupported("dict lookup with a symbolic key among non-numeric keys")
                self.oblige(f"dict-key-present {ast.unparse(e)} line {e.lineno}", path, Or(*[toI(key) == k_ for k_, _ in items]), "safety")
                res = items[-1][1]
                for k_, v in reversed(items[:-1]):
                    res = ite(toI(key) == k_, v, res)
                return res
            return b[key]
        if isinstance(b, (tuple, list, str)):
            if isinstance(e.slice, ast.Slice):
                lo = self.ev(e.slice.lower, env, path) if e.slice.lower else None
                hi = self.ev(e.slice.upper, env, path) if e.slice.upper else None
                st = self.ev(e.slice.step, env, path) if e.slice.step else None
                return b[lo:hi:st]
            i = self.ev(e.slice, env, path)
            if pyint(i):
                return b[i]
            if isinstance(b, list) and b and all(is_scalar(x) for x in b) and is_sym(i):
                res = b[-1]
                for k_ in range(len(b) - 2, -1, -1):
                    res = ite(toI(i) == k_, b[k_], res)
                self.oblige(f"index-in-bounds {ast.unparse(e)} line {e.lineno}", path, And(0 <= toI(i), toI(i) < len(b)))
                return res
            raise Unsupported("subscript of python sequence with symbolic index")
        return self.getitem(b, e.slice, env, path, e)

    def ev_Call(self, e, env, path):
        if isinstance(e.func, ast.Name) and e.func.id == "super":
            return ("super", env["self"], env["__class__"])
        f = self.ev(e.func, env, path)
        args = []
        for a in e.args:
            if isinstance(a, ast.Starred):
                args.extend(self.ev(a.value, env, path))
            else:
                args.append(self.ev(a, env, path))
        kw = {}
        for k_ in e.keywords:
            if k_.arg is None:
                kw.update(self.ev(k_.value, env, path))
            else:
                kw[k_.arg] = self.ev(k_.value, env, path)
        self.cur_call = e
        return self.apply(f, args, kw, path, e)

    def ifexp_needs_fork(self, e, env, path):
        try:
            c = self.ev(e.test, env, path)
        except Unsupported:
            return False
        if not is_sym(c):
            return False
        return any(isinstance(x, ast.Constant) and isinstance(x.value, str) for x in (e.body, e.orelse))

    def fork_call(self, e, env, path):
        """statement-level call of an undecorated repository method without a contract: if it returns on more than one
        live path, hand the outcomes back unmerged (None = evaluate normally)"""
        try:
            if isinstance(e.func, ast.Name) and e.func.id == "super":
                return None
            f = self.ev(e.func, env, path)
        except Unsupported:
            return None
        if not (isinstance(f, tuple) and f and f[0] == "method"):
            return None
        _, obj, name = f
        try:
            owner, fn = self.find(obj.cls, name)
        except KeyError:
            return None
        if (owner, name) in self.contracts or fn.decorator_list and not self.is_static(fn):
            return None
        args = []
        for a in e.args:
            if isinstance(a, ast.Starred):
                args.extend(self.ev(a.value, env, path))
            else:
                args.append(self.ev(a, env, path))
        kw = {}
        for k_ in e.keywords:
            if k_.arg is None:
                kw.update(self.ev(k_.value, env, path))
            else:
                kw[k_.arg] = self.ev(k_.value, env, path)
        self.calls.append((f"{owner}.{name}", getattr(e, "lineno", 0)))
        a_ = ([obj] if not self.is_static(fn) else []) + args
        outs = self.call_outs(owner, fn, a_, kw, path)
        live = [o for o in outs if not o.raised]
        for o in outs:
            if o.raised:
                self.raises.append((o.path.pc, o.value))
        if not live:
            raise CalleeRaises(outs[0].value if outs else PyRaise("?"))
        return live

    def apply(self, f, args, kw, path, e=None):
        if f in (int, float, bool, str, list, tuple, dict, set):
            return self.builtin_type(f, args, kw, path)
        if isinstance(f, tuple):
            tag = f[0]
            if tag == "prim":
                r_ = self.prims[f[1]](self, path, *args, **kw)
                self.prim_log.append((f[1], args, r_, self.cur_fn[-1] if self.cur_fn else None))
                return r_
            if tag == "bound":
                r_ = self.prims[f[1]](self, path, f[2], *args, **kw)
                self.prim_log.append((f[1], (f[2],) + tuple(args), r_, self.cur_fn[-1] if self.cur_fn else None))
                return r_
            if tag == "pymethod":
                return getattr(f[1], f[2])(*args, **kw)
            if tag == "method":
                _, obj, name = f
                return self.call_method(obj.cls, name, obj, args, kw, path, e)
            if tag == "unbound":
                _, cls, name = f
                owner, fn = self.find(cls, name)
                if self.is_static(fn):
                    return self.call_method(cls, name, None, args, kw, path, e)
                return self.call_method(cls, name, args[0], args[1:], kw, path, e, static_cls=cls)
            if tag == "supermethod":
                _, obj, cls, name = f
                base = self.classes[cls].bases[0].id
                return self.call_fn(base, name, [obj] + args, kw, path)
            if tag == "class":
                key = (f[1], "__new__")
                if key in self.contracts:
                    CONTRACTED.add(".".join(map(str, key)))
                    return self.contracts[key](self, path, *args, **kw)
                obj = Obj(f[1])
                if self.is_dataclass(f[1]):
                    return self.dataclass_init(f[1], obj, args, kw, path)
                self.call_method(f[1], "__init__", obj, args, kw, path, e)
                return obj
            if tag == "enumcls":
                r = self.enum_coerce(f[1], args[0])
                if isinstance(r, PyRaise):
                    raise Unsupported(f"invalid enum value {args[0]!r} for {f[1]}")
                return r
            if tag == "func":
                key = (f[1], f[2])
                self.calls.append((f"{f[1]}.{f[2]}", getattr(e, "lineno", 0)))
                if key in self.contracts:
                    CONTRACTED.add(".".join(map(str, key)))
                    return self.contracts[key](self, path, *args, **kw)
                return self.call_node(None, self.funcs[key], args, kw, path)
            if tag == "closure":
                _, node, cenv = f
                env2 = dict(cenv)
                self.bind(node, args, kw, env2, path)
                outs = self.run(node, env2, path.copy())
                return self.merge(outs, path)
            if tag == "lambda":
                _, node, cenv = f
                env2 = dict(cenv)
                self.bind_lambda(node, args, kw, env2, path)
                return self.ev(node.body, env2, path)
            if tag == "pyfunc":
                return f[1](self, path, *args, **kw)
            if tag == "rawfn":
                return self.call_node(f[1], f[2], args, kw, path, raw=True)
        raise Unsupported("call " + (ast.unparse(e.func) if e is not None else str(f)))

    def builtin_type(self, f, args, kw, path):
        if f in (list, tuple):
            if not args:
                return f()
            v = args[0]
            if isinstance(v, T):
                if v.ndim >= 1 and v.axes[0].concrete():
                    return f(self.getitem_items(v, [("idx", i)] + [("slice", None, None, None)] * (v.ndim - 1), path) for i in range(v.axes[0].size))
                raise Unsupported("list() of symbolic tensor")
            if isinstance(v, tuple) and v and v[0] == "range":
                return f(range(v[1]))
            return f(v)
        if f is set and args and type(args[0]).__name__ in ("dict_values", "dict_keys", "dict_items"):
            return set(args[0])
        if f is set:
            if args and isinstance(args[0], T):
                v = args[0]
                if v.ndim == 1 and v.axes[0].concrete():
                    its = [v.elem(i) for i in range(v.axes[0].size)]
                    if all(not is_sym(x) for x in its):
                        return set(its)
                return SymSet([v])
            return set(args[0]) if args else set()
        if f is dict:
            return dict(*args, **kw)
        if f is str:
            return str(args[0])
        if f is bool:
            return args[0] if boollike(args[0]) else bool(args[0])
        if f is float:
            v = args[0]
            return float(v) if isinstance(v, (int, float)) else toR(v)
        if f is int:
            v = args[0]
            if isinstance(v, (int, float)):
                return int(v)
            if isinstance(v, Fraction):
                return int(v)
            if is_sym(v) and is_int(v):
                return v
            return int_of_real(toR(v))
        raise Unsupported(f"builtin {f}")

    def is_static(self, fn):
        return any(isinstance(d, ast.Name) and d.id == "staticmethod" for d in fn.decorator_list)

    def is_dataclass(self, cls):
        for d in self.classes[cls].decorator_list:
            if (isinstance(d, ast.Name) and d.id == "dataclass") or \
               (isinstance(d, ast.Call) and isinstance(d.func, ast.Name) and d.func.id == "dataclass"):
                return True
        return False

    def dataclass_init(self, cls, obj, args, kw, path):
        fields = []
        for f in self.classes[cls].body:
            if isinstance(f, ast.AnnAssign) and isinstance(f.target, ast.Name):
                fields.append((f.target.id, f.value))
        vals = dict(zip([n for n, _ in fields], args))
        vals.update(kw)
        for n, d in fields:
            if n not in vals:
                if d is None:
                    raise TypeError(f"{cls}() missing argument {n}")
                vals[n] = self.ev(d, {"__module__": self.cls_mod[cls]}, path)
        obj.attrs.update(vals)
        try:
            self.find(cls, "__post_init__")
            self.call_method(cls, "__post_init__", obj, [], {}, path, None)
        except KeyError:
            pass
        return obj

    def call_method(self, cls, name, obj, args, kw, path, e=None, static_cls=None):
        dyn = obj.cls if isinstance(obj, Obj) else cls
        owner, fn = self.find(dyn if static_cls is None else static_cls, name)
        self.calls.append((f"{owner}.{name}", getattr(e, "lineno", 0)))
        key = (owner, name)
        if key in self.contracts:
            a = ([obj] if not self.is_static(fn) else []) + list(args)
            CONTRACTED.add(".".join(map(str, key)))
            return self.contracts[key](self, path, *a, **kw)
        a = ([obj] if not self.is_static(fn) else []) + list(args)
        return self.call_node(owner, fn, a, kw, path)

    def bind_lambda(self, node, args, kw, env, path):
        names = [x.arg for x in node.args.args]
        for n, v in zip(names, args):
            env[n] = v
        env.update(kw)

    def bind(self, fn, args, kw, env, path):
        a = fn.args
        names = [x.arg for x in a.posonlyargs + a.args]
        if len(args) > len(names) and a.vararg is None:
            raise TypeError(f"{fn.name}() takes {len(names)} positional arguments but {len(args)} were given")
        for n, v in zip(names, args):
            env[n] = v
        if a.vararg is not None:
            env[a.vararg.arg] = tuple(args[len(names):])
        extra = {}
        for kname, v in kw.items():
            if kname in names[:len(args)]:
                raise TypeError(f"{fn.name}() got multiple values for argument '{kname}'")
            if kname not in names and kname not in [x.arg for x in a.kwonlyargs]:
                if a.kwarg is None:
                    raise TypeError(f"{fn.name}() got an unexpected keyword argument '{kname}'")
                extra[kname] = v
            else:
                env[kname] = v
        if a.kwarg is not None:
            env[a.kwarg.arg] = extra
        nd = len(a.defaults)
        for x, d in zip(a.args[len(a.args) - nd:], a.defaults):
            if x.arg not in env:
                env[x.arg] = self.ev(d, {"__module__": env.get("__module__")}, path)
        for x, d in zip(a.kwonlyargs, a.kw_defaults):
            if x.arg not in env and d is not None:
                env[x.arg] = self.ev(d, {"__module__": env.get("__module__")}, path)
        missing = [n for n in names + [x.arg for x in a.kwonlyargs] if n not in env]
        if missing:
            raise TypeError(f"{fn.name}() missing required arguments: {missing}")

    def call_fn(self, cls, name, args, kw, path):
        owner, fn = self.find(cls, name)
        if self.is_static(fn) and args and isinstance(args[0], Obj) and args[0].cls and self.is_subclass(args[0].cls, owner or ""):
            args = args[1:]
        return self.call_node(owner, fn, args, kw, path)

    def call_node(self, owner, fn, args, kw, path, raw=False):
        env = {"__class__": owner, "__module__": self.cls_mod.get(owner) if owner else self.module_of(fn)}
        qn = f"{owner + '.' if owner else (str(env['__module__']) + ':')}{fn.name}"
        if qn not in EXECUTED:
            import hashlib
            EXECUTED[qn] = (str(env["__module__"]), fn.lineno, hashlib.sha256(ast.unparse(fn).encode()).hexdigest()[:16])
        # decorators defined in the repository (cm_class_metric) wrap the function: the decorator is *executed* symbolically
        # with the undecorated function as argument and the resulting wrapper closure is applied
        if not raw:
            for d in fn.decorator_list:
                dn = d.func if isinstance(d, ast.Call) else d
                if isinstance(dn, ast.Name) and dn.id not in ("property", "staticmethod", "classmethod", "dataclass", "wraps"):
                    r = self.scope.get(env["__module__"], {}).get(dn.id) or self.exported.get(dn.id)
                    if r is not None and r[0] == "func":
                        rawfn = ("rawfn", owner, fn)
                        if isinstance(d, ast.Call):
                            dargs = [self.ev(a, {"__module__": env["__module__"]}, path) for a in d.args]
                            dkw = {k_.arg: self.ev(k_.value, {"__module__": env["__module__"]}, path) for k_ in d.keywords}
                            deco = self.apply(r, dargs, dkw, path)
                            wrapper = self.apply(deco, [rawfn], {}, path)
                        else:
                            wrapper = self.apply(r, [rawfn], {}, path)
                        return self.apply(wrapper, args, kw, path)
                    raise Unsupported(f"decorator {dn.id}")
        outs = self.call_outs(owner, fn, args, kw, path, env)
        return self.merge(outs, path)

    def call_outs(self, owner, fn, args, kw, path, env=None):
        """runs the body of a repository function; returns the list of outcomes (one per path), unmerged"""
        if env is None:
            env = {"__class__": owner, "__module__": self.cls_mod.get(owner) if owner else self.module_of(fn)}
        self.bind(fn, args, kw, env, path)
        self.cur_fn.append(f"{owner}.{fn.name}" if owner else fn.name)
        self.cur_node.append(fn)
        self.depth += 1
        try:
            if self.depth > 40:
                raise Unsupported("recursion depth")
            outs = self.run(fn, env, path.copy())
        finally:
            self.depth -= 1
            self.cur_fn.pop()
            self.cur_node.pop()
        self.locals.setdefault(fn.name, []).append(outs)
        return outs

    def merge(self, outs, path):
        base = len(path.entries)
        live = [o for o in outs if not o.raised]
        for o in outs:
            if o.raised:
                self.raises.append((o.path.pc, o.value))
        if not live:
            if outs:
                raise CalleeRaises(outs[0].value)
            return None
        if len(live) == 1 and len(outs) == 1:
            path.entries = list(live[0].path.entries)
            return live[0].value
        conds = []
        for o in live:
            extra = o.path.entries[base:]
            br = [f for f, b in extra if b]
            cond = b_and(*br) if br else True
            conds.append(cond)
            for f, b in extra:
                if not b:
                    path.add(f if cond is True else Implies(cond, f))
        path.add(b_or(*conds))          # the callee did not raise
        res = live[-1].value
        for o, c in reversed(list(zip(live[:-1], conds[:-1]))):
            res = self.merge_vals(c, o.value, res)
        return res

    # ---------- indexing ----------
    def index_items(self, sl, env, path):
        items = sl.elts if isinstance(sl, ast.Tuple) else [sl]
        out = []
        for it in items:
            if isinstance(it, ast.Slice):
                out.append(("slice", *(self.ev(x, env, path) if x is not None else None for x in (it.lower, it.upper, it.step))))
            else:
                v = self.ev(it, env, path)
                if v is Ellipsis:
                    out.append(("ellipsis",))
                elif v is None:
                    out.append(("newaxis",))
                elif isinstance(v, (list, tuple)) and not (v and v[0] == "range"):
                    out.append(("idx", self.prims["np.asarray"](self, path, list(v))))
                else:
                    out.append(("idx", v))
        return out

    def getitem(self, b, sl, env, path, node=None):
        if is_scalar(b):
            b0 = b
            b = T((), lambda: b0)
        if not isinstance(b, T):
            raise Unsupported(f"subscript of {type(b).__name__} line {getattr(node, 'lineno', '?')}")
        items = self.index_items(sl, env, path)
        return self.getitem_norm(b, items, path, node)

    def getitem_norm(self, b, items, path, node=None):
        nreal = sum(1 for it in items if it[0] in ("idx", "slice"))
        if any(it[0] == "ellipsis" for it in items):
            k_ = [it[0] for it in items].index("ellipsis")
            items = items[:k_] + [("slice", None, None, None)] * (b.ndim - nreal) + items[k_ + 1:]
        else:
            items = items + [("slice", None, None, None)] * (b.ndim - nreal)
        # boolean mask on first axis -> masked view over the parent axis (lazy compress)
        if len(items) >= 1 and items[0][0] == "idx" and isinstance(items[0][1], T) and items[0][1].kind == "bool" \
                and items[0][1].ndim >= 1:
            mask = items[0][1]
            rest_items = items[1:]
            inner = b if all(it == ("slice", None, None, None) for it in rest_items) else \
                self.getitem_items(b, [("slice", None, None, None)] + rest_items, path, node)
            h = self.prims.get("__maskselect__")
            if h is not None:
                return h(self, path, inner, mask)
            out = T(inner.axes, inner.elem, kind=inner.kind)
            out.mask = (inner.axes[0], mask)
            return out
        if len(items) == 1 and items[0][0] == "idx" and boollike(items[0][1]) and b.ndim == 0:
            raise Unsupported("0-d boolean selection")
        return self.getitem_items(b, items, path, node)

    def getitem_items(self, b, items, path, node=None):
        new_axes, plan, src = [], [], 0
        adv = [it[1] for it in items if it[0] == "idx" and isinstance(it[1], T)]
        adv_axes, adv_fns = None, None
        if adv:
            adv_axes, adv_fns = broadcast(*adv)
        adv_i = 0
        placed_adv = False
        label = (ast.unparse(node) + f" line {node.lineno}") if node is not None else ""
        for it in items:
            if it[0] == "newaxis":
                new_axes.append(Axis("1", 1))
                plan.append(("drop",))
                continue
            if src >= b.ndim:
                raise Unsupported("too many indices " + label)
            ax = b.axes[src]
            src += 1
            if it[0] == "slice":
                lo, hi, step = it[1:]
                if lo is None and hi is None and step is None:
                    new_axes.append(ax)
                    plan.append(("keep",))
                elif step == -1 and lo is None and hi is None:
                    new_axes.append(ax)
                    plan.append(("rev", ax))
                elif step is None:
                    n = ax.size

                    def norm(v, default):
                        if v is None:
                            return default
                        if pyint(v) and v < 0:
                            return n + v if pyint(n) else toI(n) + v
                        if pyint(v) and pyint(n):
                            return min(v, n)
                        if pyint(v) and v == 0:
                            return 0
                        vv = toI(v)
                        nn = toI(n)
                        return If(vv > nn, nn, If(vv < 0, If(vv + nn < 0, IntVal(0), vv + nn), vv))
                    L = norm(lo, 0)
                    H = norm(hi, n)
                    if pyint(L) and pyint(H):
                        size = max(H - L, 0)
                    elif not pyint(n) and ((lo is None and pyint(hi) and hi < 0) or (hi is None and pyint(lo) and lo > 0)):
                        # a[:-k] and a[k:] : canonical size term max(n-k, 0) (so that the two views broadcast against each other)
                        kk = -hi if lo is None else lo
                        size = If(toI(n) >= kk, toI(n) - kk, IntVal(0))
                        L = 0 if lo is None else kk
                    else:
                        d = toI(H) - toI(L)
                        size = simplify(If(d >= 0, d, IntVal(0)))
                    na = Axis(f"{ax.name}[{L}:{H}]", size)
                    new_axes.append(na)
                    plan.append(("off", L))
                else:
                    raise Unsupported("slice with step " + label)
            else:
                v = it[1]
                if isinstance(v, T):
                    if not placed_adv:
                        for a in adv_axes:
                            new_axes.append(a)
                        placed_adv = True
                    plan.append(("adv", adv_fns[adv_i], ax))
                    adv_i += 1
                else:
                    if pyint(v):
                        iv = v if v >= 0 else (ax.size + v if pyint(ax.size) else toI(ax.size) + v)
                    else:
                        iv = toI(v)
                    if not (pyint(iv) and pyint(ax.size)):
                        self.oblige(f"index-in-bounds {label}", path, And(0 <= toI(iv), toI(iv) < toI(ax.size)))
                    elif not (0 <= iv < ax.size):
                        self.oblige(f"index-in-bounds {label}", path, BoolVal(False))
                    plan.append(("fix", iv))
        nadv = len(adv_axes) if adv_axes else 0

        def elem(*idx):
            out, pos = [], 0
            adv_idx = None
            consumed_adv = False
            for p in plan:
                if p[0] == "drop":
                    pos += 1
                    continue
                if p[0] == "keep":
                    out.append(idx[pos])
                    pos += 1
                elif p[0] == "rev":
                    out.append(p[1].size - 1 - idx[pos] if pyint(p[1].size) and pyint(idx[pos]) else toI(p[1].size) - 1 - toI(idx[pos]))
                    pos += 1
                elif p[0] == "off":
                    out.append(p[1] + idx[pos] if pyint(p[1]) and pyint(idx[pos]) else toI(p[1]) + toI(idx[pos]))
                    pos += 1
                elif p[0] == "fix":
                    out.append(p[1])
                elif p[0] == "adv":
                    if not consumed_adv:
                        adv_idx = idx[pos:pos + nadv]
                        pos += nadv
                        consumed_adv = True
                    iv = p[1](*adv_idx)
                    if not pyint(iv):
                        iv = toI(iv)
                        n = p[2].size
                        # NumPy negative indices are not modelled for symbolic index arrays: an obligation
                        # below requires 0 <= iv < n
                    out.append(iv)
            return b.elem(*out)
        for p in plan:
            if p[0] == "adv":
                ks = [self.new_int("k") for _ in adv_axes]
                rng = [And(0 <= k_, k_ < toI(a.size)) for k_, a in zip(ks, adv_axes)]
                iv = p[1](*ks)
                if pyint(iv) and pyint(p[2].size):
                    if not (-p[2].size <= iv < p[2].size):
                        self.oblige(f"adv-index-in-bounds {label}", path, BoolVal(False))
                else:
                    self.oblige(f"adv-index-in-bounds {label}", path.pc + rng, And(0 <= toI(iv), toI(iv) < toI(p[2].size)))
        if not new_axes:
            return elem()
        out = T(new_axes, elem, kind=b.kind, prov=("view:" + b.prov) if not adv else "fresh")
        if b.ndim == 1 and len(plan) == 1 and plan[0][0] in ("off", "rev"):
            out.view_src = (b, b.axes[0].size)
            out.view_kind = plan[0]
        # a full 1-D view keeps identity
        if len(plan) == 1 and plan[0][0] == "keep" and b.ndim == 1:
            out.sym, out.items, out.facts = b.sym, b.items, dict(b.facts)
        return out

    def setitem(self, base, sl, v, env, path):
        items = self.index_items(sl, env, path)
        if is_scalar(base):
            base0 = base
            base = T((), lambda: base0)
        if not isinstance(base, T):
            raise Unsupported("setitem on " + str(type(base)))
        # boolean mask assignment (mask has the shape of base)
        if len(items) == 1 and items[0][0] == "idx" and ((isinstance(items[0][1], T) and items[0][1].kind == "bool") or boollike(items[0][1])):
            m = items[0][1]
            if isinstance(v, T) and v.ndim == 1 and isinstance(m, T) and m.ndim == 1 and base.ndim == 1 and not same_size(v.axes[0].size, base.axes[0].size):
                # base[mask] = compressed values: position i of the mask receives the rho(i)-th value (mask-selection contract)
                self.prims["__maskselect__"](self, path, base, m)
                _, mlen, sigma, rho, _, ax = self.msel_memo[id(m)]
                if not same_size(v.axes[0].size, mlen):
                    self.oblige("boolean-mask assignment: as many values as selected positions", path, toI(v.axes[0].size) == mlen, "precondition")
                def put(i, v=v, m=m, base=base, rho=rho, sigma=sigma):
                    ii = toI(i)
                    val = v.elem(rho(ii))
                    # under mask[i] the contract gives sigma(rho(i)) == i: rewrite it in the selected value
                    pair = (sigma(rho(ii)), ii)

                    def sub(x):
                        if isinstance(x, FV):
                            return FV(sub(x.v), sub(x.nan), sub(x.fin) if x.fin is not None else None)
                        return z3.substitute(x, pair) if z3.is_expr(x) else x
                    return ite(toB(m.elem(i)), sub(val), base.elem(i))
                return T(base.axes, put, kind=base.kind, prov="fresh")
            res = lift(lambda mm, vv, bb: ite(toB(mm) if not isinstance(mm, bool) else mm, vv, bb), m, v, base, kind=base.kind)
            if isinstance(res, T):
                res.mask = None
                return res
            return T((), lambda: res, kind=base.kind)
        nreal = sum(1 for it in items if it[0] in ("idx", "slice"))
        if any(it[0] == "ellipsis" for it in items):
            k_ = [it[0] for it in items].index("ellipsis")
            items = items[:k_] + [("slice", None, None, None)] * (base.ndim - nreal) + items[k_ + 1:]
        else:
            items = items + [("slice", None, None, None)] * (base.ndim - nreal)
        fixed, free = [], []
        for pos, it in enumerate(items):
            if it[0] == "idx":
                iv = it[1]
                ax = base.axes[pos]
                if isinstance(iv, T):
                    raise Unsupported("advanced-index assignment")
                if pyint(iv) and iv < 0:
                    iv = ax.size + iv if pyint(ax.size) else toI(ax.size) + iv
                if not (pyint(iv) and pyint(ax.size)):
                    self.oblige("store-index-in-bounds", path, And(0 <= toI(iv), toI(iv) < toI(ax.size)))
                fixed.append((pos, iv))
            elif it == ("slice", None, None, None):
                free.append(pos)
            else:
                raise Unsupported("slice assignment")

        def elem(*idx):
            conds = []
            for p, iv in fixed:
                if pyint(idx[p]) and pyint(iv):
                    if idx[p] != iv:
                        return base.elem(*idx)
                else:
                    conds.append(toI(idx[p]) == toI(iv))
            sub = [idx[p] for p in free]
            if isinstance(v, T):
                vv = v.elem(*sub[len(sub) - v.ndim:]) if v.ndim else v.elem()
                # broadcasting of size-1 axes of v
            else:
                vv = v
            if not conds:
                return vv
            return ite(And(*conds) if len(conds) > 1 else conds[0], vv, base.elem(*idx))
        out = T(base.axes, elem, kind=base.kind, prov=base.prov)
        out.written = list(getattr(base, "written", [])) + [tuple(iv for _, iv in fixed)]
        return out


def int_of_real(r):
    """integer value of a real term: exact syntactic conversion where the term is built from ToReal / integer numerals /
    + - ite (hence integral by construction), otherwise python/NumPy truncation toward zero"""
    from z3 import (is_to_real, is_app, is_add, is_sub, is_rational_value, Z3_OP_UMINUS, Z3_OP_MUL, Z3_OP_ITE)

    def conv(t):
        if is_int(t):
            return t
        if is_to_real(t):
            return t.arg(0)
        if is_rational_value(t):
            return IntVal(t.numerator_as_long()) if t.denominator_as_long() == 1 else None
        if is_app(t) and t.decl().kind() == Z3_OP_UMINUS:
            c = conv(t.arg(0))
            return None if c is None else -c
        if is_add(t) or is_sub(t):
            cs = [conv(c) for c in t.children()]
            if any(c is None for c in cs):
                return None
            res = cs[0]
            for c in cs[1:]:
                res = (res + c) if is_add(t) else (res - c)
            return res
        if is_app(t) and t.decl().kind() == Z3_OP_MUL and t.num_args() == 2:
            x, y = conv(t.arg(0)), conv(t.arg(1))
            if x is not None and y is not None and (is_rational_value(t.arg(0)) or is_rational_value(t.arg(1))):
                return x * y
            return None
        if is_app(t) and t.decl().kind() == Z3_OP_ITE:
            x, y = conv(t.arg(1)), conv(t.arg(2))
            return None if x is None or y is None else If(t.arg(0), x, y)
        return None
    if is_sym(r):
        c = conv(r)
        if c is not None:
            return c
    return If(r >= 0, ToInt(r), -ToInt(-r))


class SymSet:
    """opaque set of the values of symbolic tensors (only union / sorted / conversion to an array are supported)"""

    def __init__(self, sources):
        self.sources = tuple(sources)

    def __or__(self, o):
        if isinstance(o, SymSet):
            return SymSet(self.sources + o.sources)
        return NotImplemented


class CalleeRaises(Exception):
    def __init__(self, exc):
        self.exc = exc


def subst_scalar(v, a, b):
    if isinstance(v, FV):
        return FV(subst_scalar(v.v, a, b), subst_scalar(v.nan, a, b) if is_sym(v.nan) else v.nan)
    if is_sym(v):
        return substitute(v, (a, b))
    return v


def load_modules(repo=None):
    repo = repo or os.environ.get("VERIF_REPO", "/repo")
    base = os.path.join(repo, "score_analysis")
    files = {"scores": "scores.py", "cm": "cm.py", "metrics": "metrics.py", "utils": "utils.py",
             "group_scores": "group_scores.py", "roc_curve": "roc_curve.py", "showbias": "showbias.py",
             "doc_fraud": "applications/doc_fraud.py", "datasets": "experimental/datasets.py",
             "roc_ci": "experimental/roc_ci.py"}
    out = {}
    for m, f in files.items():
        p = os.path.join(base, f)
        with open(p) as fh:
            out[m] = (p, fh.read())
    return out
