"""Sound pre-processing of an obligation  hyps |- goal  for the linear-arithmetic core of z3:

 1. clear denominators: every real subterm is carried as (numerator, multiset of divisor terms); multiplication by a term
    that is one of the divisors cancels it; comparisons are multiplied through.  This is an equivalence *provided every
    divisor is positive*, which is returned as a side condition and must be proved from the original hypotheses.
 2. monomial abstraction: after `simplify(som=True)` every remaining product of two or more non-numeral factors is replaced
    by a fresh real constant (consistently).  This generalises the formula, so `unsat` of the abstraction implies `unsat`
    of the original; a model of the abstraction means nothing (reported as unknown).
"""
import itertools

import z3
from z3 import (And, BoolVal, If, Not, Or, RealVal, Real, is_add, is_and, is_app, is_bool, is_const, is_div, is_eq, is_ge, is_gt,
                is_int, is_le, is_lt, is_mul, is_not, is_or, is_quantifier, is_rational_value, is_real, is_sub, is_to_int,
                is_to_real, simplify)

_cnt = itertools.count()


class Clear:
    def __init__(self):
        self.memo = {}
        self.divisors = {}

    # real terms -> (num, den) with den a sorted tuple of divisor ids (multiset)
    def den_term(self, den):
        t = None
        for i in den:
            d = self.divisors[i]
            t = d if t is None else t * d
        return t

    def scale(self, q, D):
        """numerator of q over the common denominator D (D is a multiset containing q's)"""
        num, den = q
        rest = list(D)
        for i in den:
            rest.remove(i)
        for i in rest:
            num = num * self.divisors[i]
        return num

    @staticmethod
    def union(dens):
        D = []
        for den in dens:
            tmp = list(D)
            for i in den:
                if i in tmp:
                    tmp.remove(i)
                else:
                    D.append(i)
        return tuple(sorted(D))

    def plain(self, q):
        num, den = q
        return num if not den else num / self.den_term(den)

    def real(self, t):
        k = ("r", t.get_id())
        if k in self.memo:
            return self.memo[k]
        r = self._real(t)
        self.memo[k] = r
        return r

    def _real(self, t):
        if is_rational_value(t) or is_const(t):
            return (t, ())
        if is_add(t) or is_sub(t):
            qs = [self.real(c) for c in t.children()]
            D = self.union([q[1] for q in qs])
            nums = [self.scale(q, D) for q in qs]
            if is_add(t):
                r = nums[0]
                for n in nums[1:]:
                    r = r + n
            else:
                r = nums[0]
                for n in nums[1:]:
                    r = r - n
            return (r, D)
        if is_app(t) and t.decl().kind() == z3.Z3_OP_UMINUS:
            q = self.real(t.arg(0))
            return (-q[0], q[1])
        if is_mul(t):
            qs = [self.real(c) for c in t.children()]
            num, den = qs[0]
            den = list(den)
            for q in qs[1:]:
                qn, qd = q
                # multiplication by a term that is one of the divisors cancels it
                if not qd and qn.get_id() in den:
                    den.remove(qn.get_id())
                    continue
                if not den and num.get_id() in list(qd) and not False:
                    qd2 = list(qd)
                    qd2.remove(num.get_id())
                    num, den = qn, qd2
                    continue
                num = num * qn
                den = den + list(qd)
            return (num, tuple(sorted(den)))
        if is_div(t):
            a, b = self.real(t.arg(0)), self.real(t.arg(1))
            bt = self.plain(b) if b[1] else b[0]
            if is_rational_value(bt):
                return (a[0] / bt, a[1])
            # (u * d) / d  ->  u   (d must still be shown non-zero: it is registered as a divisor)
            self.divisors[bt.get_id()] = bt
            if is_mul(a[0]):
                fs = list(a[0].children())
                for q, f_ in enumerate(fs):
                    if f_.get_id() == bt.get_id():
                        rest = fs[:q] + fs[q + 1:]
                        num = rest[0]
                        for r_ in rest[1:]:
                            num = num * r_
                        return (num, a[1])
            return (a[0], tuple(sorted(list(a[1]) + [bt.get_id()])))
        if is_app(t) and t.decl().kind() == z3.Z3_OP_ITE:
            c = self.boolean(t.arg(0))
            a, b = self.real(t.arg(1)), self.real(t.arg(2))
            D = self.union([a[1], b[1]])
            return (If(c, self.scale(a, D), self.scale(b, D)), D)
        if is_to_real(t):
            return (z3.ToReal(self.integer(t.arg(0))), ())
        # uninterpreted / select / other: rebuild with transformed children as plain terms
        return (self.rebuild(t), ())

    def integer(self, t):
        k = ("i", t.get_id())
        if k in self.memo:
            return self.memo[k]
        if is_to_int(t):
            r = z3.ToInt(self.plain(self.real(t.arg(0))))
        elif is_app(t) and t.num_args() > 0:
            r = self.rebuild(t)
        else:
            r = t
        self.memo[k] = r
        return r

    def rebuild(self, t):
        if is_quantifier(t) or not is_app(t) or t.num_args() == 0:
            return t
        args = []
        for c in t.children():
            if is_bool(c):
                args.append(self.boolean(c))
            elif is_real(c):
                args.append(self.plain(self.real(c)))
            elif is_int(c):
                args.append(self.integer(c))
            else:
                args.append(c)
        return t.decl()(*args)

    def boolean(self, t):
        k = ("b", t.get_id())
        if k in self.memo:
            return self.memo[k]
        r = self._boolean(t)
        self.memo[k] = r
        return r

    def _boolean(self, t):
        if is_quantifier(t):
            return t
        if is_app(t) and t.num_args() == 2 and (is_le(t) or is_lt(t) or is_ge(t) or is_gt(t) or is_eq(t) or t.decl().kind() == z3.Z3_OP_DISTINCT) \
                and is_real(t.arg(0)):
            a, b = self.real(t.arg(0)), self.real(t.arg(1))
            D = self.union([a[1], b[1]])
            x, y = self.scale(a, D), self.scale(b, D)
            if is_le(t):
                return x <= y
            if is_lt(t):
                return x < y
            if is_ge(t):
                return x >= y
            if is_gt(t):
                return x > y
            if is_eq(t):
                return x == y
            return x != y
        if is_app(t) and t.num_args() > 0:
            return self.rebuild(t)
        return t


def abstract_monomials(fs):
    """replace every product of >= 2 non-numeral factors by a fresh constant (keyed by the sorted factor ids)"""
    table, memo = {}, {}

    def walk(t):
        i = t.get_id()
        if i in memo:
            return memo[i]
        if is_quantifier(t) or not is_app(t) or t.num_args() == 0:
            memo[i] = t
            return t
        args = [walk(c) for c in t.children()]
        if is_mul(t) and is_real(t):
            coef = [a for a in args if is_rational_value(a)]
            rest = [a for a in args if not is_rational_value(a)]
            if len(rest) >= 2:
                key = tuple(sorted(a.get_id() for a in rest))
                if key not in table:
                    table[key] = Real(f"mono!{next(_cnt)}")
                r = table[key]
                for c in coef:
                    r = c * r
                memo[i] = r
                return r
        r = t.decl()(*args) if args else t
        memo[i] = r
        return r
    return [walk(f) for f in fs], len(table)


def linearize(hyps, goal):
    """returns (hyps', goal', side) where side is the conjunction 'every divisor > 0' (None if there are no divisors)"""
    c = Clear()
    hs = [c.boolean(h) for h in hyps if not is_quantifier(h)]
    qs = [h for h in hyps if is_quantifier(h)]
    g = c.boolean(goal)
    side = [d > 0 for d in c.divisors.values()]
    simp = [simplify(f, som=True, push_to_real=True, arith_lhs=False) for f in hs + [g]]
    out, n = abstract_monomials(simp)
    return out[:-1] + qs, out[-1], (And(*side) if side else None), n


def elim_toint(fs):
    """replace every to_int(x) by a fresh Int f_x with the floor axioms  f_x <= x < f_x + 1  (equivalent; solvers are much
    stronger on this form than on the to_int function symbol)"""
    from z3 import Int, ToReal
    table, memo = {}, {}

    def walk(t):
        i = t.get_id()
        if i in memo:
            return memo[i]
        if is_quantifier(t) or not is_app(t) or t.num_args() == 0:
            memo[i] = t
            return t
        args = [walk(c) for c in t.children()]
        if is_to_int(t):
            k = args[0].get_id()
            if k not in table:
                table[k] = (Int(f"fl!{next(_cnt)}"), args[0])
            memo[i] = table[k][0]
            return memo[i]
        r = t.decl()(*args)
        memo[i] = r
        return r
    out = [walk(f) for f in fs]
    ax = []
    for f, x in table.values():
        ax += [ToReal(f) <= x, x < ToReal(f) + 1]
    return out, ax
