#!/usr/bin/env python3
"""tools/benign_table.py -- regenerate benign/README.md from benign/*/meta.json"""
import glob
import json
import os

ROOT = os.path.dirname(os.path.dirname(os.path.abspath(__file__)))
rows = []
for f in sorted(glob.glob(os.path.join(ROOT, "benign", "*", "meta.json"))):
    m = json.load(open(f))
    desc = " ".join((m.get("description") or "").split())[:220]
    chk = "<br>".join(f"{cid}: exit {c['exit']}, {c['discharged']}/{c['obligations']} discharged, {c['undecided_count']} undecided" for cid, c in m["checks"].items())
    rows.append((m["name"], "pass" if m["tests_with_patch"]["exit"] == 0 else "FAIL", "FALSE ALARM" if m["false_alarm"] else "quiet", chk, desc))
out = ["# Behaviour-preserving refactorings run through the checks", "",
       "Produced by fresh sub-agents (one property text and a scratch worktree each; instructed to change nothing observable: values bit for bit, shapes,",
       "dtypes, exceptions, RNG consumption) and filed by `tools/confirm_benign.py`. A check must stay quiet (exit 0, no VIOLATION) on these; obligations that",
       "become undecided are a loss of proof coverage for that run (level `exploration`), not an alarm.", "",
       "| name | repository tests | checks | per check | edit |", "|---|---|---|---|---|"]
for r in rows:
    out.append("| " + " | ".join(x.replace("|", "\\|") for x in r) + " |")
fa = sum(1 for r in rows if r[2] != "quiet")
und = sum(1 for f in glob.glob(os.path.join(ROOT, "benign", "*", "meta.json")) for c in json.load(open(f))["checks"].values() if c["undecided_count"])
out += ["", f"{len(rows)} edits; false alarms: {fa}; (edit, check) pairs with undecided obligations: {und}."]
open(os.path.join(ROOT, "benign", "README.md"), "w").write("\n".join(out) + "\n")
print(out[-1])
