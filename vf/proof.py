"""Proof driver: build obligations from the current source, discharge, refute the rest in ground mode, replay."""
import time
import traceback
from fractions import Fraction

from z3 import BoolVal, Not, Solver, is_false, is_true, sat, simplify, unsat

from .engine import CalleeRaises, Oblig, Unsupported
from .solve import discharge


def rank_floats(vals):
    """order-type preserving map of exact rationals to small floats (1.0, 2.0, ...)"""
    ds = sorted(set(vals))
    return {v: float(k + 1) for k, v in enumerate(ds)}


def fval(m, v):
    r = m.eval(v, model_completion=True)
    try:
        return Fraction(r.numerator_as_long(), r.denominator_as_long())
    except Exception:
        pass
    try:
        return Fraction(r.as_long())
    except Exception:
        pass
    s = str(r).replace("?", "")
    try:
        return Fraction(s)
    except Exception:
        return Fraction(float(r.approx(20).as_decimal(20).replace("?", ""))) if hasattr(r, "approx") else Fraction(0)


def case_from_model(m, spec):
    return {k: (float(fval(m, v)) if not isinstance(v, (int, float, str, list)) else v) for k, v in spec.items()}


def literal(goal):
    g = simplify(goal) if hasattr(goal, "sort") else goal
    if is_true(g):
        return True
    if is_false(g):
        return False
    return None


def safe_build(build, sizes, chk, what, only=None):
    try:
        if only is not None:
            try:
                return build(sizes, only)
            except TypeError as e:
                if "positional argument" not in str(e):
                    raise
        return build(sizes) if sizes is not None else build()
    except (Unsupported, CalleeRaises, KeyError, TypeError, AssertionError, AttributeError, IndexError, ValueError, RecursionError) as e:
        chk.notes.append(f"{what}: engine could not execute the current source: {type(e).__name__}: {e}")
        if sizes is None:
            chk.undecided.append(f"{chk.pid}/engine:{type(e).__name__}:{str(e)[:120]}")
        import os
        if os.environ.get("VERIF_DEBUG"):
            traceback.print_exc()
        return None


class LightOblig:
    """picklable summary of an obligation solved in a worker process"""

    def __init__(self, o):
        self.id, self.kind, self.props, self.status, self.time, self.backend = o.id, o.kind, o.props, o.status, o.time, o.backend
        self.detail = str(o.detail)[:500] if o.detail is not None else None
        import json
        self.meta = {}
        for k, v in o.meta.items():
            try:
                json.dumps(v)
                self.meta[k] = v
            except (TypeError, ValueError):
                pass
        try:
            self.goal_str = " ".join(o.goal.sexpr().split())[:400]
            self.n_hyps = len(o.hyps)
        except Exception:
            self.goal_str, self.n_hyps = None, None
        self.hyps, self.goal = [], None


_PART_CTX = {}


def _solve_part(part):
    build, timeout = _PART_CTX["build"], _PART_CTX["timeout"]
    try:
        obs = build(None, None, part)
    except (Unsupported, CalleeRaises, KeyError, TypeError, AssertionError, AttributeError, IndexError, ValueError, RecursionError) as e:
        import os
        if os.environ.get("VERIF_DEBUG"):
            traceback.print_exc()
        return ("error", part, f"{type(e).__name__}: {e}")
    solver_obs = classify(obs)
    discharge(solver_obs, timeout_s=timeout, jobs=_PART_CTX["jobs"], modes=("direct",))
    discharge([o for o in solver_obs if o.status != "unsat"], timeout_s=max(3, timeout / 2), jobs=_PART_CTX["jobs"], modes=("lin",))
    if _PART_CTX.get("tier") == "thorough":
        from .solve import cross_confirm
        cross_confirm(solver_obs, jobs=_PART_CTX["jobs"])
    groups = {}
    for o in solver_obs:
        if o.status == "unsat" and o.hyps and o.kind not in ("lemma",):
            groups.setdefault(o.id.split("[")[-1] + o.id.split("/")[1], o)
    cans = [Oblig("canary:" + o.id, o.hyps, BoolVal(False), "canary") for o in list(groups.values())[:2]]
    discharge(cans, timeout_s=5, modes=("direct",), jobs=_PART_CTX["jobs"])
    from . import engine, prims
    return ("ok", part, [LightOblig(o) for o in obs], [(c.id, c.status) for c in cans], (dict(engine.EXECUTED), sorted(engine.CONTRACTED), sorted(prims.USED)))


def classify(obs):
    solver_obs = []
    for o in obs:
        if o.meta.get("engine_error"):
            o.status, o.backend, o.detail = "unknown", "engine", o.meta["engine_error"]
            continue
        lit = literal(o.goal) if not o.hyps else (True if literal(o.goal) is True else None)
        if lit is True:
            o.status, o.backend = "unsat", "structural"
        elif lit is False and not o.hyps:
            o.status, o.backend = "sat", "structural"
        else:
            solver_obs.append(o)
    return solver_obs


def prove(chk, build, ground_sizes=(), replay=None, timeout=None, known_ok=None, canaries=8, min_obligations=1, parts=None):
    timeout = timeout or (12 if chk.tier == "quick" else 60)
    t0 = time.time()
    if parts:
        from .framework import parallel_map, _pool_jobs
        _PART_CTX.update(build=build, timeout=timeout, jobs=max(1, _pool_jobs() // min(len(parts), _pool_jobs())), tier=chk.tier)
        obs = []
        for res in parallel_map(_solve_part, parts):
            if res[0] == "error":
                chk.notes.append(f"symbolic build of part {res[1]}: engine could not execute the current source: {res[2]}")
                chk.undecided.append(f"{chk.pid}/engine[{res[1]}]:{res[2][:120]}")
                continue
            obs += res[2]
            chk.absorb_meta(*res[4])
            for cid, st in res[3]:
                chk.vacuity.append({"canary": cid, "status": st})
                if st == "unsat":
                    raise RuntimeError(f"vacuous hypotheses: {cid}")
        chk.obligs += obs
        if len(obs) < min_obligations:
            raise RuntimeError("zero obligations generated")
        return refute(chk, build, obs, ground_sizes, replay, t0, second_pass=timeout)
    obs = safe_build(build, None, chk, "symbolic build")
    if obs is None:
        return []
    solver_obs = classify(obs)
    discharge(solver_obs, timeout_s=timeout)
    if chk.tier == "thorough":
        from .solve import cross_confirm
        cross_confirm(solver_obs)
    # vacuity canaries: `False` under the same hypotheses must not be provable
    groups = {}
    for o in solver_obs:
        if o.status == "unsat" and o.hyps:
            groups.setdefault(o.id.split("[")[-1] + o.id.split("/")[1], o)
    cans = [Oblig("canary:" + o.id, o.hyps, BoolVal(False), "canary") for o in list(groups.values())[:canaries]]
    discharge(cans, timeout_s=5, modes=("direct",))
    for c in cans:
        chk.vacuity.append({"canary": c.id, "status": c.status})
        if c.status == "unsat":
            raise RuntimeError(f"vacuous hypotheses: {c.id} (False is provable from the pre-condition facts)")
    chk.obligs += obs
    if len(obs) < min_obligations:
        raise RuntimeError("zero obligations generated")
    return refute(chk, build, obs, ground_sizes, replay, t0)


def gid(o):
    """identifier used to match an obligation of the symbolic build with its ground-mode twin"""
    import re
    return o.meta.get("gid") or re.sub(r",easy[=>]0\]", "]", o.id)


def refute(chk, build, obs, ground_sizes, replay, t0, second_pass=None):
    """ground-mode refutation + replay on the real code of every obligation that was not discharged; obligations that are
    neither discharged nor refuted get a second pass with the remaining strategies (cvc5, index instantiation)"""
    failed = [o for o in obs if o.status != "unsat"]
    gcache = {}
    rest = []
    for o in failed:
        key = o.meta.get("key", o.id)
        done = False
        for sz in (ground_sizes if o.meta.get("case") or True else ()):
            if time.time() - t0 > (600 if chk.tier == "quick" else 3000):
                break
            if sz not in gcache:
                gcache[sz] = safe_build(build, sz, chk, f"ground build {sz}", only={gid(f) for f in failed}) or []
            go = next((g for g in gcache[sz] if gid(g) == gid(o)), None)
            if go is None:
                continue
            if literal(go.goal) is True:
                continue
            s = Solver()
            s.set("timeout", 10000)
            s.add(go.hyps)
            s.add(Not(go.goal))
            models = 0
            while models < (3 if chk.tier == "quick" else 10):
                r = s.check()
                if r != sat:
                    break
                m = s.model()
                models += 1
                case = None
                if go.meta.get("case") is not None:
                    try:
                        case = go.meta["case"](m)
                    except Exception as e:
                        chk.notes.append(f"case construction failed for {o.id}: {e}")
                if case is None:
                    break
                res = None
                try:
                    res = replay(case) if replay else None
                except Exception as e:
                    res = f"real code raised {type(e).__name__}: {e}"
                if res:
                    chk.violation(case.get("clause", o.id), key, res, case, kind="ground-model", obligation=o.id,
                                  solver=f"ground instance {sz}: sat; symbolic status {o.status} ({o.backend})")
                    done = True
                    break
                # spurious model (real vs float, or a too weak primitive contract): block and try the next
                blk = [d() != m[d] for d in m.decls() if d.arity() == 0]
                if not blk:
                    break
                from z3 import Or
                s.add(Or(*blk))
            if done:
                break
        if done:
            o.meta["refuted"] = True
            continue
        if o.status == "sat" and not o.meta.get("abstracted") and callable(o.meta.get("case_from_model")) and isinstance(o.detail, dict) and replay:
            # quantifier-free refutation whose model fixes the whole input: build the input and run the real code on it
            try:
                case = o.meta["case_from_model"](o.detail)
                res = replay(case) if case is not None else None
            except Exception as e:        # noqa: BLE001
                case, res = None, None
                chk.notes.append(f"model of {o.id} could not be replayed: {type(e).__name__}: {e}")
            if res:
                chk.violation(o.id, key, res, case, kind="ground-model", obligation=o.id, solver=f"quantifier-free model: {o.detail}")
                o.meta["refuted"] = True
                continue
        if o.status == "sat" and o.meta.get("abstracted"):
            # the query generalises the obligation (terms replaced by fresh symbols under proved hints): a model is only a candidate
            rest.append(o)
        elif o.status == "sat":
            # definite refutation (quantifier-free / structural) but no concrete failing input
            chk.violation(o.id, key, f"obligation refuted ({o.backend}): {o.detail if o.detail else o.meta}", None, kind="refuted",
                          obligation=o.id, solver=str(o.detail), reproduced=False)
        else:
            rest.append(o)
    if rest and second_pass and (len(rest) <= 32 or not chk.findings):
        # second pass: rebuild only what is left and try the remaining strategies
        again = safe_build(build, None, chk, "second-pass build", only={o.id for o in rest}) or []
        again = [a for a in again if a.id in {o.id for o in rest} and not a.meta.get("engine_error")]
        sol = classify(again)
        discharge(sol, timeout_s=second_pass * 2, modes=("cvc5", "inst", "direct"))
        byid = {a.id: a for a in again}
        for o in rest:
            a = byid.get(o.id)
            if a is not None and a.status == "unsat":
                o.status, o.backend, o.time = "unsat", a.backend, o.time + a.time
            else:
                chk.undecided.append(o.id)
    else:
        for o in rest:
            chk.undecided.append(o.id)
    return obs
