"""C09 -- virtual easy samples behave exactly like materialised extreme scores (relational).

Object A declares k easy positives and m easy negatives; object B has them as actual scores V_pos / V_neg lying beyond all
other scores on their own class's side (top or bottom of the ascending array, by score_class) and declares none.
  cm        for every threshold strictly between the materialised extremes the four cells agree  (lemma: counts of the extended
            array = counts of the original (+ the block size), by index instantiation)
  thr       threshold_at_{tpr,fnr,tnr,fpr}(r) (linear) agree whenever B's threshold is not a special case and both interpolation
            nodes of B are scored samples (which implies the statement's 'threshold within [min,max] of the scored samples')
AUC equality, topr/tonr thresholds and the weight-0 sliver of the side condition are bounded only.
"""
import numpy as np
from z3 import And, Array, Bool, BoolVal, ForAll, If, Implies, Int, IntSort, Not, Or, Real, RealSort, RealVal, ToReal, substitute

from vf import bounded as B
from vf import prims as P
from vf.common import label, mk_scores, new_exec, run_method
from vf.engine import Axis, Obj, Oblig, Path, T, toI, toR
from vf.proof import prove
from vf.solve import has_quant
from props import thr as TH
from props.thr2 import base_of, un0

LEVEL = "proof"


def extended(ex, path, a, e, V, where, name):
    """ascending arrangement of  a (+) V^e  with V beyond all elements of a:  where='top': a then V's; 'bottom': V's then a"""
    A, n = a.sym
    Bz = Array(f"{name}!{next(ex.fresh)}", IntSort(), RealSort())
    NB = n + e
    i = Int("i!ext")
    if where == "top":
        path.add(ForAll([i], Implies(And(0 <= i, i < n), Bz[i] == A[i]), patterns=[Bz[i]]))
        path.add(ForAll([i], Implies(And(0 <= i, i < n), Bz[i] == A[i]), patterns=[A[i]]))
        path.add(ForAll([i], Implies(And(n <= i, i < NB), Bz[i] == V), patterns=[Bz[i]]))
        path.add(ForAll([i], Implies(And(0 <= i, i < n), A[i] < V), patterns=[A[i]]))
    else:
        path.add(ForAll([i], Implies(And(e <= i, i < NB), Bz[i] == A[i - e]), patterns=[Bz[i]]))
        path.add(ForAll([i], Implies(And(0 <= i, i < n), Bz[i + e] == A[i]), patterns=[A[i]]))
        path.add(ForAll([i], Implies(And(0 <= i, i < e), Bz[i] == V), patterns=[Bz[i]]))
        path.add(ForAll([i], Implies(And(0 <= i, i < n), A[i] > V), patterns=[A[i]]))
    path.add(P.float_formula(Bz))
    path.add(P.isfloat(V))
    b = T((Axis(name, NB),), lambda k, Bz=Bz: Bz[toI(k)], prov="attr:" + name, sym=(Bz, NB))
    b.facts["cnt"] = lambda v, strict_, Bz=Bz, NB=NB: (P.cnt_lt if strict_ else P.cnt_le)(Bz, NB, toR(v))
    return b


def sides(sc):
    """where the materialised easy positives / negatives sit in the ascending arrays"""
    return ("top", "bottom") if sc == "pos" else ("bottom", "top")


def setup(ex, path, sc, ec, me):
    ep, en = toI(me.attrs["nb_easy_pos"]), toI(me.attrs["nb_easy_neg"])
    Vp, Vn = Real("V_easy_pos"), Real("V_easy_neg")
    wp, wn = sides(sc)
    bp = extended(ex, path, me.attrs["pos"], ep, Vp, wp, "matpos")
    bn = extended(ex, path, me.attrs["neg"], en, Vn, wn, "matneg")
    return bp, bn, Vp, Vn, wp, wn


def build(sizes=None, only=None, part=None):
    obs = []
    if sizes is not None:
        return obs
    for sc, ec in B.CONFIGS:
        if part is not None and part != f"{sc},{ec}":
            continue
        tag = f"[{sc},{ec}]"
        for fn in (build_cm, build_thresholds):
            try:
                obs += fn(sc, ec, tag)
            except Exception as e:
                import os
                if os.environ.get("VERIF_DEBUG"):
                    import traceback
                    traceback.print_exc()
                obs.append(Oblig(f"C09/{fn.__name__[6:]}/executes{tag}", [], BoolVal(False), "post", ("C09",), {"engine_error": f"{type(e).__name__}: {e}"}))
    return obs


PARTS = [f"{sc},{ec}" for sc, ec in B.CONFIGS]


def build_cm(sc, ec, tag):
    obs = []
    ex = new_exec()
    path = Path()
    me = mk_scores(ex, path, sc, ec)
    t = Real("t")
    bp, bn, Vp, Vn, wp, wn = setup(ex, path, sc, ec, me)
    lo, hi = (Vn, Vp) if sc == "pos" else (Vp, Vn)
    path.add(And(lo < t, t < hi))          # threshold strictly between the materialised extremes

    def ob(name, goal, kind="post", hyps=None, meta=None):
        obs.append(Oblig(f"C09/cm/{name}{tag}", hyps if hyps is not None else path.pc, goal, kind, ("C09",), dict({"key": f"C09/cm/{name}{tag}"}, **(meta or {}))))
    for b in (bp, bn):
        ob(f"lemma-L6-{b.axes[0].name}-ascending", P.sorted_formula(*b.sym), "lemma")
    for b in (bp, bn):
        path.add(P.sorted_formula(*b.sym))
        b.facts["sorted"] = True
    for a, b, e, w in ((me.attrs["pos"], bp, toI(me.attrs["nb_easy_pos"]), wp), (me.attrs["neg"], bn, toI(me.attrs["nb_easy_neg"]), wn)):
        A, n = a.sym
        Bz, NB = b.sym
        path.add(P.cnt_char(A, n, t))
        path.add(P.cnt_char(Bz, NB, t))
        k1, k2, l1, l2 = P.cnt_lt(A, n, t), P.cnt_le(A, n, t), P.cnt_lt(Bz, NB, t), P.cnt_le(Bz, NB, t)
        off = 0 if w == "top" else e
        idx = [l1, l1 - 1, l2, l2 - 1, k1, k1 - 1, k2, k2 - 1, k1 + e, k1 + e - 1, k2 + e, k2 + e - 1, l1 - e, l1 - e - 1, l2 - e, l2 - e - 1, n, n - 1, e, e - 1]
        ob(f"lemma-L2-counts-of-extended-{a.axes[0].name}", And(l1 == k1 + off, l2 == k2 + off), "lemma", meta={"idx": idx})
    for a, b, e, w in ((me.attrs["pos"], bp, toI(me.attrs["nb_easy_pos"]), wp), (me.attrs["neg"], bn, toI(me.attrs["nb_easy_neg"]), wn)):
        A, n = a.sym
        Bz, NB = b.sym
        off = 0 if w == "top" else e
        path.add(And(P.cnt_lt(Bz, NB, t) == P.cnt_lt(A, n, t) + off, P.cnt_le(Bz, NB, t) == P.cnt_le(A, n, t) + off))
    mb = Obj("Scores", pos=bp, neg=bn, nb_easy_pos=0, nb_easy_neg=0, score_class=label(ex, sc), equal_class=label(ex, ec))
    (o1,) = run_method(ex, "Scores", "cm", me, [t], path=path)
    (o2,) = run_method(ex, "Scores", "cm", mb, [t], path=o1.path)
    m1, m2 = o1.value.attrs["matrix"], o2.value.attrs["matrix"]
    for a_ in (0, 1):
        for b_ in (0, 1):
            ob(f"cell{a_}{b_}-equal", toI(m1.elem(a_, b_)) == toI(m2.elem(a_, b_)), hyps=o2.path.pc)
    for so in ex.obligs:
        so.id = f"C09/cm/safety:{so.id}{tag}"
        so.props = ("C09",)
        obs.append(so)
    return obs


def build_thresholds(sc, ec, tag0):
    obs = []
    for metric in ("tpr", "fnr", "tnr", "fpr"):
        tag = tag0[:-1] + f",{metric}]"
        ex = new_exec()
        r1 = TH.ThrRun(metric, sc, ec, "linear", None, ex=ex, easy_case="some")
        if not r1.ok or r1.th is None:
            obs.append(Oblig(f"C09/threshold/executes{tag}", [], BoolVal(False), "post", ("C09",), {"engine_error": "no single path"}))
            continue
        path, me = r1.path, r1.me
        env1 = r1.roles()
        bp, bn, Vp, Vn, wp, wn = setup(ex, path, sc, ec, me)
        for b in (bp, bn):
            path.add(P.sorted_formula(*b.sym))          # L6, discharged in build_cm
            b.facts["sorted"] = True
        mb = Obj("Scores", pos=bp, neg=bn, nb_easy_pos=0, nb_easy_neg=0, score_class=label(ex, sc), equal_class=label(ex, ec))
        r2 = TH.ThrRun(metric, sc, ec, "linear", None, ex=ex, path=path, me=mb, r=r1.r)
        if not r2.ok or r2.th is None:
            obs.append(Oblig(f"C09/threshold/executes{tag}", [], BoolVal(False), "post", ("C09",), {"engine_error": "no single path"}))
            continue
        path = r2.path
        env2 = r2.roles()
        hy = path.pc
        arith = [h for h in hy if not has_quant([h]) and "select" not in h.sexpr()]
        e = r1.ep if metric in ("tpr", "fnr") else r1.en
        n = r1.n_rel
        w = wp if metric in ("tpr", "fnr") else wn
        KA, KB = r1.clipK(), r2.clipK()
        abstr, facts = [], []
        K = Real("K!abs")
        for k, (env, run, Kc) in enumerate(((env1, r1, KA), (env2, r2, KB))):
            T_, rho = toR(un0(env["target"])), toR(un0(env["target_ratio"]))
            shift = 0 if env["left_continuous"] is True else 1
            nrel, loc = ToReal(run.n_rel), ToReal(run.lo_c)
            base = base_of(metric, sc, Kc, nrel, loc)
            for nm, g in (("A1-target-affine", Implies(And(Not(rho <= 0), Not(rho >= 1)), T_ == base - shift)),
                          ("A2-low-special-case", (rho <= 0) == (base <= 0)), ("A3-high-special-case", (rho >= 1) == (base >= nrel))):
                obs.append(Oblig(f"C09/threshold/arith/{nm}({'materialised' if k else 'virtual'}){tag}", arith, g, "hint", ("C09",)))
            tau, zlo, zhi = Real(f"tau{k}!abs"), Bool(f"zlo{k}!abs"), Bool(f"zhi{k}!abs")
            abstr += [(T_, tau), (rho <= 0, zlo), (RealVal(0) >= rho, zlo), (rho >= 1, zhi), (RealVal(1) <= rho, zhi)]
            lo_, hi_ = loc, loc + nrel
            kc = If(K < lo_, lo_, If(K > hi_, hi_, K))            # clip(K) with K = r * N_all, the same K for both objects
            bk = base_of(metric, sc, kc, nrel, loc)
            facts += [Implies(And(Not(zlo), Not(zhi)), tau == bk - shift), zlo == (bk <= 0), zhi == (bk >= nrel)]
            if k == 1:
                zloB, zhiB, tauB = zlo, zhi, tau
        facts += [n >= 1, e >= 1]
        # side condition (index space): B's threshold is not a special case and both interpolation nodes are scored samples
        off = 0 if w == "top" else e
        liB, riB = toI(un0(env2["left_idx"])), toI(un0(env2["right_idx"]))
        side = And(Not(zloB), Not(zhiB), off <= liB, liB < off + n, off <= riB, riB < off + n)
        hy2 = [substitute(h, *abstr) for h in hy if "cnt_l" not in h.sexpr()] + facts
        th1, th2 = substitute(r1.th, *abstr), substitute(r2.th, *abstr)
        side = substitute(side, *abstr)
        # equal, or -- at the single grid target where the virtual object is in a special case while the materialised one
        # interpolates with weight 0 -- exactly one float apart (the statement compares thresholds as floats; C02 fixes the
        # tolerance at a few ulp)
        same = Or(th2 == th1, th1 == P.nxt_up(th2), th1 == P.nxt_dn(th2))
        obs.append(Oblig(f"C09/threshold/equal-when-nodes-are-scored-samples{tag}", hy2, Implies(side, same), "relational", ("C09",),
                         {"key": f"C09/threshold[{metric},{sc},{ec}]", "abstracted": True}))
        # the side condition is satisfiable (vacuity guard): checked by the canary mechanism of the driver
    return obs


# ----------------------------------------------------------------------------------------------------------------
# bounded layer

def oracle(case):
    from vf.framework import real_repo
    sa = real_repo()
    pos, neg = list(case["pos"]), list(case["neg"])
    sc, ec, ep, en = case["sc"], case["ec"], case["ep"], case["en"]
    allv = pos + neg
    H, L = max(allv) + 10.0, min(allv) - 10.0
    vp, vn = (H, L) if sc == "pos" else (L, H)
    a = sa.Scores(pos, neg, nb_easy_pos=ep, nb_easy_neg=en, score_class=sc, equal_class=ec)
    b = sa.Scores(pos + [vp] * ep, neg + [vn] * en, score_class=sc, equal_class=ec)
    info = f"[pos={pos} neg={neg} easy=({ep},{en}) {sc}/{ec}]"
    t = B.thresholds_for(allv, with_inf=False)
    m1, m2 = np.asarray(a.cm(t).matrix), np.asarray(b.cm(t).matrix)
    if not np.array_equal(m1, m2):
        k = int(np.argmax(np.any(m1 != m2, axis=(1, 2))))
        return f"cm({t[k]!r}): virtual {m1[k].tolist()} vs materialised {m2[k].tolist()} {info}"
    for kw in ({}, {"lower": 0.1, "upper": 0.6}, {"x_axis": "fnr", "y_axis": "tnr"}, {"lower": 0.3, "upper": 0.95, "x_axis": "tnr", "y_axis": "fnr"},
               {"lower": 0.9, "upper": 1.0}, {"lower": 0.0, "upper": 0.05}, {"lower": 0.97, "upper": 0.99, "x_axis": "fnr", "y_axis": "fpr"}):
        x, y = a.auc(**kw), b.auc(**kw)
        if abs(x - y) > 1e-12:
            return f"auc({kw}): virtual {x!r} vs materialised {y!r} {info}"
    # one float64 target array shared by both objects and by all metrics: no query may write into it
    shared = np.linspace(0.05, 0.95, 7)
    shared0 = shared.copy()
    for m in TH.METRICS:
        rel = {"tpr": pos, "fnr": pos, "tnr": neg, "fpr": neg}.get(m, allv)
        if not rel:
            continue
        va, vb = getattr(a, "threshold_at_" + m)(shared), getattr(b, "threshold_at_" + m)(shared)
        if not np.array_equal(shared, shared0):
            return f"threshold_at_{m} modified the caller's target array (the next object sees other targets) {info}"
        n_all = len(rel) + {"tpr": ep, "fnr": ep, "tnr": en, "fpr": en}.get(m, ep + en)
        for k in range(0, 4 * n_all + 1):
            r = k / (4 * n_all)
            tb = getattr(b, "threshold_at_" + m)(r)
            if not (min(rel) <= tb <= max(rel)):
                continue
            ta = getattr(a, "threshold_at_" + m)(r)
            # equal in R (proved); in floats the two objects reach the interpolation weight through different roundings of a
            # count of magnitude N: the weight differs by O(N eps), the threshold by that times the spread of the scores
            n_tot = len(allv) + ep + en
            if abs(ta - tb) > 8 * n_tot * np.finfo(float).eps * max(abs(max(allv)), abs(min(allv)), max(allv) - min(allv), 1.0):
                return f"threshold_at_{m}({r!r}): virtual {ta!r} vs materialised {tb!r} {info}"
    return None


def replay(case):
    return oracle(case)


def eval_items(items):
    counts, viols = {"easy-vs-materialised": [0, 0]}, []
    for case in items:
        res = oracle(case)
        counts["easy-vs-materialised"][0] += 1
        counts["easy-vs-materialised"][1] += 1 if case["ep"] + case["en"] else 0
        if res:
            viols.append(("easy-vs-materialised", f"C09/bounded/{res.split('(')[0]}[{case['sc']},{case['ec']}]", res, B.jsonable(case)))
    return counts, viols, []


def bounded(chk):
    from vf.framework import run_bounded
    maxn = 4 if chk.tier == "quick" else 6
    easy = [(0, 0), (1, 0), (0, 2), (2, 3)] if chk.tier == "quick" else [(0, 0), (1, 0), (0, 1), (0, 2), (2, 3), (5, 1), (1, 7)]
    items = []
    for pos, neg in B.order_types(maxn, min_pos=1, min_neg=1):
        for ep, en in easy:
            for sc, ec in B.CONFIGS:
                items.append({"pos": pos, "neg": neg, "ep": ep, "en": en, "sc": sc, "ec": ec})
    chk.bounded["bound"] = f"all order types with both classes non-empty, pos+neg <= {maxn}; easy counts {easy}; 4 configurations; thresholds at/around/between all scores; 4 AUC windows/axis pairs; targets k/(4N) for the six metrics"
    chk.bounded["rule"] = "enumerated; non-trivial = at least one easy sample"
    chk.bounded["exhaustive"] = True
    run_bounded(chk, items, eval_items)
    chk.samples.append({"bounded-case": items[min(50, len(items) - 1)]})


def run(chk):
    prove(chk, build, replay=replay, parts=PARTS)
    bounded(chk)
