"""Shared construction of symbolic inputs and spec-level helpers used by the per-property contract files."""
import ast

from z3 import And, Int, IntVal, Not, Real, ToReal

from . import prims as P
from .engine import EnumVal, Exec, Obj, Path, T, Unsupported, load_modules, toI, toR

_MODS = None


def modules():
    global _MODS
    if _MODS is None:
        _MODS = load_modules()
    return _MODS


def new_exec(contracts=None, invariants=None, extra_prims=None, ground=False):
    from . import prims_ext  # noqa: F401  (registers the remaining primitives)
    ex = Exec(modules(), P.install(extra_prims), contracts=contracts or {}, invariants=invariants or {}, ground=ground)
    return ex


def label(ex, v):
    return ex.enum_member("BinaryLabel", v)


def mk_scores(ex, path, sc, ec, npos=None, nneg=None, easy=True, cls="Scores", name="", min_pos=0, min_neg=0,
              strict=False, extra_attrs=None):
    """symbolic Scores object satisfying the class invariant Inv(S): pos, neg ascending 1-D float arrays,
    easy counts >= 0.  npos/nneg None -> unbounded symbolic length; int -> ground arrays of that length."""
    pos = P.mk_array(ex, path, name + "pos", npos, ascending=True, strict=strict, prov="attr:pos", min_len=min_pos)
    neg = P.mk_array(ex, path, name + "neg", nneg, ascending=True, strict=strict, prov="attr:neg", min_len=min_neg)
    if isinstance(easy, tuple):
        ep, en = easy
    elif easy:
        ep, en = Int(name + "nb_easy_pos"), Int(name + "nb_easy_neg")
        path.add(And(ep >= 0, en >= 0))
    else:
        ep, en = 0, 0
    o = Obj(cls, pos=pos, neg=neg, nb_easy_pos=ep, nb_easy_neg=en, score_class=label(ex, sc), equal_class=label(ex, ec))
    if extra_attrs:
        o.attrs.update(extra_attrs)
    return o


def predpos(sc, ec, arr, t):
    """spec: number of elements of the multiset `arr` that the documented rule predicts POSITIVE at threshold t"""
    n = toI(arr.axes[0].size)
    cnt = arr.facts["cnt"]
    if (sc, ec) == ("pos", "pos"):
        return n - cnt(t, True)       # score >= t
    if (sc, ec) == ("pos", "neg"):
        return n - cnt(t, False)      # score >  t
    if (sc, ec) == ("neg", "pos"):
        return cnt(t, False)          # score <= t
    return cnt(t, True)               # score <  t


def run_method(ex, cls, name, obj, args=(), kw=None, path=None):
    """execute a method body symbolically; returns the list of Out (one per path)"""
    owner, fn = ex.find(cls, name)
    env = {"__class__": owner, "__module__": ex.cls_mod.get(owner)}
    a = ([obj] if not ex.is_static(fn) else []) + list(args)
    ex.bind(fn, a, dict(kw or {}), env, path)
    ex.cur_fn.append(f"{owner}.{name}")
    ex.cur_node.append(fn)
    from .engine import Obj as _O
    if name != "__init__":
        ex.obj_watermark = next(_O._ids)
    try:
        outs = ex.run(fn, env, path)
    finally:
        ex.cur_fn.pop()
        ex.cur_node.pop()
    return outs


def run_function(ex, mod, name, args=(), kw=None, path=None):
    fn = ex.funcs[(mod, name)]
    env = {"__class__": None, "__module__": mod}
    ex.bind(fn, list(args), dict(kw or {}), env, path)
    ex.cur_fn.append(name)
    ex.cur_node.append(fn)
    from .engine import Obj as _O
    ex.obj_watermark = next(_O._ids)
    try:
        outs = ex.run(fn, env, path)
    finally:
        ex.cur_fn.pop()
        ex.cur_node.pop()
    return outs


def xtensor(ex, name="t", kind="real"):
    """a value of abstract shape X (stand-in for any shape of >= 1 dims): element x is the independent symbol TH[x]"""
    from z3 import Array, IntSort, RealSort
    from .engine import Axis
    TH = Array(f"{name}!X{next(ex.fresh)}", IntSort(), RealSort())
    X = Axis("X", Int(f"X!{next(ex.fresh)}"))
    return T((X,), lambda x: TH[toI(x)], kind=kind, prov="param:" + name), TH, X


def multi_path_meta(outs):
    """harness convenience, not a property: several non-raising paths where the sidecar expects one merged path make the obligations
    of that function undecided (never a violation)"""
    n = sum(1 for o in outs if not o.raised)
    return {"engine_error": f"{n} non-raising paths (the sidecar expects one merged path)"} if n > 1 else {}
