"""C05 -- multiclass confusion matrices: faithful construction, conservative one-vs-all.

  one_vs_all          executed for a symbolic matrix of shape X+(N,N) and (N,N), N symbolic: the loop over the classes is recognised as
                      a map loop (iterations independent); closed forms per class j: TP=M[j,j], FN=rowsum_j-M[j,j], FP=colsum_j-M[j,j],
                      TN=total-rowsum_j-colsum_j+M[j,j]; the four cells sum to the total; P_j=rowsum_j, TOP_j=colsum_j
  per-class metrics   through the cm_class_metric wrapper (executed): shape X+(N,), value at class j is the binary metric of the
                      j-th one-vs-all matrix; accuracy = trace / population (NaN iff population 0)
  from predictions    _assign_from_predictions for ANY number of samples over C = 2..3 classes in any order: the accumulation loop carries the
                      sidecar invariant matrix[i][j] = W_ij(k) (recursive definition of the total weight of the samples (i,j) among the
                      first k); init / preservation / exit are obligations.  Additionally unrolled for L = 1..3 (all values symbolic) as a
                      cross-check of the invariant machinery.  The number of classes is concrete (2, 3).
  from matrix         nested lists / dict of dicts with any class order: out[i][j] = M[cls_i][cls_j]
DataFrame input, as_dict and permutation equivariance are covered by the bounded layer (pandas is outside the engine).
"""
import ast
import itertools

import numpy as np
from z3 import And, BoolVal, Function, If, Implies, Int, IntSort, Not, Or, Real, RealSort, Sum

from vf import bounded as B
from vf import prims as P
from vf.common import new_exec, run_function, run_method
from vf.engine import FV, Axis, Obj, Oblig, Path, T, Unsupported, is_sym, nan_of, same_size, toB, toI, toR
from vf.proof import prove

LEVEL = "proof"


def sym_matrix(ex, path, lead):
    N = Int("N")
    path.add(N >= 2)
    C1, C2 = Axis("C", N), Axis("C", N)
    if lead:
        X = Axis("X", Int("Xsize"))
        M = Function("M", IntSort(), IntSort(), IntSort(), RealSort())
        m = T((X, C1, C2), lambda x, i, j: M(toI(x), toI(i), toI(j)), prov="attr:matrix")
    else:
        X = None
        M2 = Function("M2", IntSort(), IntSort(), RealSort())
        m = T((C1, C2), lambda i, j: M2(toI(i), toI(j)), prov="attr:matrix")
    classes = T((Axis("C", N),), lambda i: toI(i), kind="int", prov="attr:classes")
    return m, classes, N, X


def build(sizes=None, only=None, part=None):
    obs = []
    if sizes is not None:
        return obs
    if part in (None, "ova"):
        for lead in (True, False):
            obs += guarded(build_ova, lead)
    if part in (None, "pred"):
        for C, L in ((2, 1), (2, 2), (3, 2), (3, 3)):
            for weighted in (False, True):
                obs += guarded(build_predictions, C, L, weighted)
    if part in (None, "predind"):
        for C in (2, 3):
            for weighted in (False, True):
                obs += guarded(build_predictions_inductive, C, weighted)
    if part in (None, "matrix"):
        obs += guarded(build_from_matrix)
    return obs


PARTS = ["ova", "pred", "predind", "matrix"]


def guarded(fn, *a):
    try:
        return fn(*a)
    except Exception as e:
        import os
        if os.environ.get("VERIF_DEBUG"):
            import traceback
            traceback.print_exc()
        return [Oblig(f"C05/{fn.__name__[6:]}{list(a)}/executes", [], BoolVal(False), "post", ("C05",), {"engine_error": f"{type(e).__name__}: {e}"})]


def build_ova(lead):
    obs = []
    ex = new_exec()
    path = Path()
    m, classes, N, X = sym_matrix(ex, path, lead)
    cm = Obj("ConfusionMatrix", matrix=m, classes=classes, binary=False)
    tag = "[X+(N,N)]" if lead else "[(N,N)]"
    x, j = Int("x"), Int("j")
    path.add(And(0 <= j, j < N))
    if lead:
        path.add(And(0 <= x, x < toI(X.size)))
    (o,) = run_method(ex, "ConfusionMatrix", "one_vs_all", cm, [], path=path)
    r, p = o.value, o.path

    def ob(name, goal, hyps=None, kind="post"):
        obs.append(Oblig(f"C05/one_vs_all/{name}{tag}", list(hyps if hyps is not None else p.pc), goal, kind, ("C05",), {"key": f"C05/one_vs_all/{name}"}))
    ok = isinstance(r, Obj) and r.cls == "ConfusionMatrix" and r.attrs.get("binary") is True and isinstance(r.attrs.get("matrix"), T) \
        and r.attrs["matrix"].ndim == (4 if lead else 3) and [a.size for a in r.attrs["matrix"].axes[-2:]] == [2, 2] \
        and same_size(r.attrs["matrix"].axes[-3].size, N)
    ob("shape-X+(N,2,2)-binary", BoolVal(bool(ok)), [], "shape")
    if not ok:
        return obs
    om = r.attrs["matrix"]
    cell = (lambda a, b: toR(om.elem(x, j, a, b))) if lead else (lambda a, b: toR(om.elem(j, a, b)))
    Mx = (lambda i, k: toR(m.elem(x, i, k))) if lead else (lambda i, k: toR(m.elem(i, k)))
    # spec: row / column sums and total through the same (assumed, definitional) contract of np.sum, built independently here
    row = P.p_sum(ex, p, ex.getitem_items(m, ([("slice", None, None, None)] if lead else []) + [("idx", j), ("slice", None, None, None)], p), axis=-1)
    col = P.p_sum(ex, p, ex.getitem_items(m, ([("slice", None, None, None)] if lead else []) + [("slice", None, None, None), ("idx", j)], p), axis=-1)
    tot = P.p_sum(ex, p, m, axis=(-1, -2))
    g = (lambda t: toR(t.elem(x))) if lead else (lambda t: toR(t))
    rowj, colj, total = g(row), g(col), g(tot)
    ob("TP_j=M[j,j]", cell(0, 0) == Mx(j, j))
    ob("FN_j=rowsum_j-M[j,j]", cell(0, 1) == rowj - Mx(j, j))
    ob("FP_j=colsum_j-M[j,j]", cell(1, 0) == colj - Mx(j, j))
    ob("TN_j=total-rowsum_j-colsum_j+M[j,j]", cell(1, 1) == total - rowj - colj + Mx(j, j))
    ob("population-conserved", cell(0, 0) + cell(0, 1) + cell(1, 0) + cell(1, 1) == total)
    ob("P_j=rowsum_j", cell(0, 0) + cell(0, 1) == rowj)
    ob("TOP_j=colsum_j", cell(0, 0) + cell(1, 0) == colj)
    # per-class metrics through the decorator wrapper: shape X+(N,) and value = binary metric of the j-th 2x2
    for name, num, den in (("tpr", (0, 0), [(0, 0), (0, 1)]), ("fpr", (1, 0), [(1, 0), (1, 1)]), ("ppv", (0, 0), [(0, 0), (1, 0)]), ("tnr", (1, 1), [(1, 0), (1, 1)])):
        try:
            res = ex.call_method("ConfusionMatrix", name, cm, [], {}, p.copy())
        except Exception as e:
            ob(f"{name}/executes", BoolVal(False), [], "post")
            obs[-1].meta["engine_error"] = f"{type(e).__name__}: {e}"
            continue
        oks = isinstance(res, T) and res.ndim == (2 if lead else 1) and same_size(res.axes[-1].size, N)
        ob(f"{name}/shape-X+(N,)", BoolVal(bool(oks)), [], "shape")
        if not oks:
            continue
        v = res.elem(x, j) if lead else res.elem(j)
        d = sum([cell(*c) for c in den[1:]], cell(*den[0]))
        ob(f"{name}/value-is-binary-metric-of-class-j", And(toB(nan_of(v)) == (d == 0), Implies(d != 0, toR(v) * d == cell(*num))))
    # accuracy = trace / population
    try:
        acc = ex.call_method("ConfusionMatrix", "accuracy", cm, [], {}, p.copy())
        diag = T(m.axes[:-1], (lambda xx, i: m.elem(xx, i, i)) if lead else (lambda i: m.elem(i, i)))
        tr = g(P.p_sum(ex, p, diag, axis=-1))
        v = acc.elem(x) if (lead and isinstance(acc, T)) else acc
        oks = (isinstance(acc, T) and acc.ndim == 1) if lead else not isinstance(acc, T)
        ob("accuracy/shape", BoolVal(bool(oks)), [], "shape")
        if oks:
            ob("accuracy=trace/population", And(toB(nan_of(v)) == (total == 0), Implies(total != 0, toR(v) * total == tr)))
    except Exception as e:
        ob("accuracy/executes", BoolVal(False), [], "post")
        obs[-1].meta["engine_error"] = f"{type(e).__name__}: {e}"
    for so in ex.obligs:
        so.id = f"C05/one_vs_all/safety:{so.id}#{len(obs)}{tag}"
        so.props = ("C05",)
        obs.append(so)
    return obs


def build_predictions(C, L, weighted):
    """_assign_from_predictions with L samples over C classes given in an arbitrary (symbolic) order: all values symbolic"""
    obs = []
    tag = f"[C={C},L={L},{'weights' if weighted else 'unit-weights'}]"
    for perm in itertools.permutations(range(C)):
        ex = new_exec()
        path = Path()
        labels = [Int(f"label{k}") for k in range(L)]
        preds = [Int(f"pred{k}") for k in range(L)]
        ws = [Real(f"w{k}") for k in range(L)] if weighted else None
        for v in labels + preds:
            path.add(And(0 <= v, v < C))
        lab = P.from_list(ex, path, labels)
        prd = P.from_list(ex, path, preds)
        wt = P.from_list(ex, path, ws) if weighted else None
        classes = list(perm)
        outs = run_function(ex, "cm", "ConfusionMatrix._assign_from_predictions", [], {}, path=path) if False else None
        owner, fn = ex.find("ConfusionMatrix", "_assign_from_predictions")
        res = ex.call_node(owner, fn, [lab, prd, wt, classes, False], {}, path)
        matrix, cls = res
        ptag = tag[:-1] + f",order={classes}]"
        ok = isinstance(matrix, T) and matrix.ndim == 2 and [a.size for a in matrix.axes] == [C, C]
        obs.append(Oblig(f"C05/from_predictions/shape{ptag}", [], BoolVal(bool(ok)), "shape", ("C05",)))
        if not ok:
            continue
        for i in range(C):
            for j in range(C):
                want = Sum([If(And(labels[k] == classes[i], preds[k] == classes[j]), (ws[k] if weighted else 1), 0) for k in range(L)])
                obs.append(Oblig(f"C05/from_predictions/entry[{i},{j}]-is-total-weight{ptag}", path.pc, toR(matrix.elem(i, j)) == toR(want), "post", ("C05",),
                                 {"key": "C05/from_predictions/entry"}))
        for so in ex.obligs:
            so.id = f"C05/from_predictions/safety:{so.id}#{len(obs)}{ptag}"
            so.props = ("C05",)
            obs.append(so)
    return obs


def build_predictions_inductive(C, weighted):
    """_assign_from_predictions for ANY number of samples (C classes in an arbitrary order): the accumulation loop is handled with the
    sidecar loop invariant  matrix[i][j] = W_ij(k)  after k samples, where W_ij(k+1) = W_ij(k) + [label_k = class_i and pred_k = class_j] * w_k
    is the recursive definition of 'total weight of the samples (i, j) among the first k'.  init / preservation (body executed once
    from a havocked state satisfying the invariant) / exit are obligations; the conclusion is the invariant at k = L."""
    from z3 import ForAll, Function, IntSort
    obs = []
    tag0 = f"[C={C},any-L,{'weights' if weighted else 'unit-weights'}]"
    for perm in itertools.permutations(range(C)):
        classes = list(perm)
        tag = tag0[:-1] + f",order={classes}]"
        st = {}

        def handler(ex, s, it, env, path, classes=classes, tag=tag, st=st):
            seqs = it[1]
            lab_t, prd_t, w_t = seqs
            Lz = toI(lab_t.axes[0].size)
            # the loop-carried array: the root name of the (augmented) subscript store in the body
            roots = set()
            for node in ast.walk(ast.Module(body=list(s.body), type_ignores=[])):
                if isinstance(node, (ast.AugAssign, ast.Assign)):
                    tg = node.target if isinstance(node, ast.AugAssign) else node.targets[0]
                    while isinstance(tg, ast.Subscript):
                        tg = tg.value
                    if isinstance(tg, ast.Name):
                        roots.add(tg.id)
            roots = [r_ for r_ in roots if isinstance(env.get(r_), T)]
            if len(roots) != 1:
                raise Unsupported("accumulation loop: the loop-carried array was not identified")
            mname = roots[0]
            m0 = env[mname]
            W = Function(f"W!{next(ex.fresh)}", IntSort(), IntSort(), IntSort(), RealSort())
            k, K = Int("k!acc"), Int("K!acc")
            wk = lambda kk: toR(w_t.elem(kk))
            ax = []
            for i in range(C):
                for j in range(C):
                    ax.append(W(i, j, 0) == 0)
                    ax.append(ForAll([k], Implies(k >= 0, W(i, j, k + 1) == W(i, j, k) + If(And(toI(lab_t.elem(k)) == classes[i], toI(prd_t.elem(k)) == classes[j]), wk(k), 0)),
                                     patterns=[W(i, j, k + 1)]))
            for f in ax:
                path.add(f)
            st.update(W=W, L=Lz, ax=ax)
            ex.oblige(f"from_predictions/loop-invariant-init{tag}", path, And(*[toR(m0.elem(i, j)) == W(i, j, 0) for i in range(C) for j in range(C)]), "loop-invariant", ("C05",))
            # preservation: arbitrary state satisfying the invariant at K, one execution of the body
            cells = [[ex.new_real(f"m{i}{j}") for j in range(C)] for i in range(C)]
            mk_ = T(m0.axes, lambda i, j: P.sel([P.sel(row, j) for row in cells], i), kind=m0.kind, prov=m0.prov)
            p2 = path.copy()
            p2.add(And(0 <= K, K < Lz))
            p2.add(And(*[cells[i][j] == W(i, j, K) for i in range(C) for j in range(C)]))
            for i in range(C):
                for j in range(C):
                    p2.add(W(i, j, K + 1) == W(i, j, K) + If(And(toI(lab_t.elem(K)) == classes[i], toI(prd_t.elem(K)) == classes[j]), wk(K), 0))
            env2 = dict(env)
            env2[mname] = mk_
            ex.assign(s.target, (lab_t.elem(K), prd_t.elem(K), w_t.elem(K)), env2, p2)
            ends = []
            bouts = []
            ex.block(list(s.body), env2, p2, bouts, lambda e_, p_: ends.append((e_, p_)))
            if bouts or len(ends) != 1:
                raise Unsupported("accumulation loop body forks, returns or raises")
            e3, p3 = ends[0]
            m1 = e3[mname]
            ex.oblige(f"from_predictions/loop-invariant-preserved{tag}", p3, And(*[toR(m1.elem(i, j)) == W(i, j, K + 1) for i in range(C) for j in range(C)]), "loop-invariant", ("C05",))
            # exit: the invariant at k = L
            env[mname] = T(m0.axes, lambda i, j: P.sel([P.sel([W(a_, b_, Lz) for b_ in range(C)], j) for a_ in range(C)], i), kind=m0.kind, prov=m0.prov)
        ex = new_exec(invariants={("ConfusionMatrix._assign_from_predictions", "for", 0): {"handler": handler}})
        path = Path()
        from z3 import Array
        LBa, PRa = Array("labels_arr", IntSort(), IntSort()), Array("preds_arr", IntSort(), IntSort())
        Ln = Int("nb_samples")
        path.add(Ln >= 0)
        q = Int("q!pre")
        # pre-condition: every label and prediction is one of the classes
        path.add(ForAll([q], Implies(And(0 <= q, q < Ln), And(0 <= LBa[q], LBa[q] < C, 0 <= PRa[q], PRa[q] < C))))
        lab = T((Axis("L", Ln),), lambda k_: LBa[toI(k_)], kind="int", prov="param:labels")
        prd = T((Axis("L", Ln),), lambda k_: PRa[toI(k_)], kind="int", prov="param:predictions")
        wt = P.mk_array(ex, path, "weights", None, floats=False, prov="param:weights") if weighted else None
        if weighted:
            wt = wt.with_(axes=(Axis("L", Ln),))
        owner, fn = ex.find("ConfusionMatrix", "_assign_from_predictions")
        res = ex.call_node(owner, fn, [lab, prd, wt, classes, False], {}, path)
        matrix, cls = res
        ok = isinstance(matrix, T) and matrix.ndim == 2 and [a.size for a in matrix.axes] == [C, C] and "W" in st
        obs.append(Oblig(f"C05/from_predictions/shape{tag}", [], BoolVal(bool(ok)), "shape", ("C05",), {} if ok else {"engine_error": "accumulation loop not recognised"}))
        if ok:
            W, Lz = st["W"], st["L"]
            obs.append(Oblig(f"C05/from_predictions/entry[i,j]-is-the-total-weight-of-samples-(i,j){tag}", path.pc,
                             And(*[toR(matrix.elem(i, j)) == W(i, j, Lz) for i in range(C) for j in range(C)]), "post", ("C05",), {"key": "C05/from_predictions/entry"}))
        for so in ex.obligs:
            so.id = ("C05/" + so.id) if so.id.startswith("from_predictions/") else f"C05/from_predictions/safety:{so.id}#{len(obs)}{tag}"
            so.props = ("C05",)
            obs.append(so)
    return obs


def build_from_matrix():
    obs = []
    names = ["a", "b", "c"]
    for perm in itertools.permutations(range(3)):
        order = [names[k] for k in perm]
        for form in ("dict", "lists"):
            ex = new_exec()
            path = Path()
            vals = {(r, c): Real(f"m_{r}{c}") for r in names for c in names}
            owner, fn = ex.find("ConfusionMatrix", "_assign_from_matrix")
            if form == "dict":
                arg = {r: {c: vals[(r, c)] for c in names} for r in names}
                res = ex.call_node(owner, fn, [arg, order, False], {}, path)
            else:
                arg = [[vals[(r, c)] for c in order] for r in order]
                res = ex.call_node(owner, fn, [arg, order, False], {}, path)
            matrix, cls = res
            tag = f"[{form},order={order}]"
            ok = isinstance(matrix, T) and matrix.ndim == 2 and [a.size for a in matrix.axes] == [3, 3]
            obs.append(Oblig(f"C05/from_matrix/shape{tag}", [], BoolVal(bool(ok)), "shape", ("C05",)))
            if not ok:
                continue
            goal = And(*[toR(matrix.elem(i, j)) == vals[(order[i], order[j])] for i in range(3) for j in range(3)])
            obs.append(Oblig(f"C05/from_matrix/entries-in-requested-class-order{tag}", path.pc, goal, "post", ("C05",), {"key": "C05/from_matrix/entries"}))
            citems = P.items_of(cls) if isinstance(cls, T) else None
            obs.append(Oblig(f"C05/from_matrix/classes-in-requested-order{tag}", [], BoolVal(citems == order), "post", ("C05",)))
    return obs


# ----------------------------------------------------------------------------------------------------------------
# bounded layer

def oracle(case):
    from vf.framework import real_repo
    real_repo()
    import pandas as pd
    from score_analysis import ConfusionMatrix
    cl = case["clause"]
    if cl == "predictions":
        labels, preds, ws, classes = case["labels"], case["preds"], case.get("weights"), case["classes"]
        cm = ConfusionMatrix(labels=labels, predictions=preds, weights=ws, classes=classes)
        C = len(classes)
        exp = np.zeros((C, C))
        for k, (l_, p_) in enumerate(zip(labels, preds)):
            exp[classes.index(l_), classes.index(p_)] += (ws[k] if ws else 1)
        if cm.matrix.shape != (C, C) or not np.allclose(cm.matrix, exp, rtol=0, atol=1e-12):
            return f"from predictions: matrix {np.asarray(cm.matrix).tolist()} expected {exp.tolist()} for labels={labels} preds={preds} weights={ws} classes={classes}"
        # equivalent inputs: dict of dicts, DataFrame, nested lists, any class order
        for perm in itertools.permutations(range(C)):
            order = [classes[k] for k in perm]
            expo = exp[np.ix_(perm, perm)]
            d = {r: {c: exp[classes.index(r), classes.index(c)] for c in classes} for r in classes}
            df = pd.DataFrame(exp, index=classes, columns=classes)
            dfs = df.loc[classes[::-1], classes]           # rows in another order than columns
            for nm, arg in (("dict", d), ("DataFrame", df), ("DataFrame-row-order", dfs), ("lists", expo.tolist())):
                m2 = ConfusionMatrix(matrix=arg, classes=order)
                if not np.allclose(np.asarray(m2.matrix, dtype=float), expo, rtol=0, atol=1e-12) or list(m2.classes) != order:
                    return f"from matrix ({nm}, classes={order}): {np.asarray(m2.matrix).tolist()} expected {expo.tolist()}"
            m3 = ConfusionMatrix(labels=labels, predictions=preds, weights=ws, classes=order)
            if not np.allclose(m3.matrix, expo, rtol=0, atol=1e-12):
                return f"from predictions with classes={order}: {np.asarray(m3.matrix).tolist()} expected {expo.tolist()}"
        dfn = pd.DataFrame(exp, index=classes, columns=classes[::-1]).loc[:, classes[::-1]]
        dfn = pd.DataFrame(exp[:, ::-1], index=classes, columns=classes[::-1])
        m4 = ConfusionMatrix(matrix=dfn)
        if not np.allclose(np.asarray(m4.matrix, dtype=float), exp, rtol=0, atol=1e-12):
            return f"from DataFrame with column order != row order and classes=None: {np.asarray(m4.matrix).tolist()} expected {exp.tolist()}"
        return None
    if cl == "ova":
        M = np.array(case["matrix"], dtype=float if case.get("float") else int).reshape(case["shape"])
        N = M.shape[-1]
        lead = M.shape[:-2]
        names = [f"c{k}" for k in range(N)]
        cm = ConfusionMatrix(matrix=M, classes=names)
        ova = np.asarray(cm.one_vs_all().matrix)
        tot = M.sum(axis=(-1, -2))
        if ova.shape != lead + (N, 2, 2):
            return f"one_vs_all shape {ova.shape}"
        for j in range(N):
            tp, fn, fp, tn = ova[..., j, 0, 0], ova[..., j, 0, 1], ova[..., j, 1, 0], ova[..., j, 1, 1]
            if not (np.array_equal(tp, M[..., j, j]) and np.array_equal(tp + fn, M[..., j, :].sum(-1)) and np.array_equal(tp + fp, M[..., :, j].sum(-1))
                    and np.array_equal(tp + fn + fp + tn, tot)):
                return f"one_vs_all class {j}: cells {ova[..., j, :, :].tolist()} inconsistent with matrix {M.tolist()}"
        with np.errstate(all="ignore"):
            for name in ("tpr", "fnr", "tnr", "fpr", "ppv", "npv", "topr", "tonr", "class_accuracy"):
                arr = np.asarray(getattr(cm, name)(), dtype=float)
                if arr.shape != lead + (N,):
                    return f"{name}: shape {arr.shape}, expected {lead + (N,)}"
                dct = getattr(cm, name)(as_dict=True)
                if list(dct.keys()) != names or any(not np.array_equal(np.asarray(dct[c], dtype=float), arr[..., k], equal_nan=True) for k, c in enumerate(names)):
                    return f"{name}(as_dict=True) disagrees with the array form"
                from score_analysis import metrics
                exp = np.stack([np.asarray(getattr(metrics, name.replace("class_", ""))(ova[..., k, :, :]), dtype=float) for k in range(N)], axis=-1)
                if not np.array_equal(arr, exp, equal_nan=True):
                    return f"{name}: {arr.tolist()} is not the binary metric of the one-vs-all matrices {exp.tolist()}"
            ci = np.asarray(cm.tpr_ci(), dtype=float)
            if ci.shape != lead + (N, 2):
                return f"tpr_ci shape {ci.shape}"
            dct = cm.tpr_ci(as_dict=True)
            if any(not np.array_equal(np.asarray(dct[c]), ci[..., k, :], equal_nan=True) for k, c in enumerate(names)):
                return "tpr_ci(as_dict=True) disagrees with the array form (axis)"
            acc = np.asarray(cm.accuracy(), dtype=float)
            exp = np.where(tot != 0, np.trace(M, axis1=-2, axis2=-1) / np.where(tot != 0, tot, 1), np.nan)
            if not np.array_equal(np.isnan(acc), tot == 0) or not np.all(np.isnan(exp) | (np.abs(acc - exp) <= 1e-15)):
                return f"accuracy {acc.tolist()} expected {exp.tolist()}"
            for perm in itertools.permutations(range(N)):
                if N > 3 and perm[0] != N - 1:
                    continue
                Mp = M[..., perm, :][..., :, perm]
                a1 = np.asarray(ConfusionMatrix(matrix=Mp, classes=[names[k] for k in perm]).fpr(), dtype=float)
                a0 = np.asarray(cm.fpr(), dtype=float)[..., list(perm)]
                if not np.array_equal(a1, a0, equal_nan=True):
                    return f"per-class fpr not equivariant under class permutation {perm}"
        return None
    raise ValueError(cl)


def replay(case):
    return oracle(case)


def eval_items(items):
    counts, viols = {}, []
    for case in items:
        try:
            res = oracle(case)
        except Exception as e:
            res = f"raised {type(e).__name__}: {e} for {str(case)[:200]}"
        c = counts.setdefault(case["clause"], [0, 0])
        c[0] += 1
        c[1] += 1
        if res:
            viols.append((case["clause"], f"C05/bounded/{case['clause']}:{res.split(':')[0][:40]}", res, B.jsonable(case)))
    return counts, viols, []


def bounded(chk):
    from vf.framework import run_bounded
    items = []
    for classes in ([0, 1], ["x", "y", "z"], [2, 0, 1], ["b", "a"]):
        C = len(classes)
        maxL = 3 if (C == 3 and chk.tier == "quick") else 4
        for L in range(0, maxL + 1):
            seqs = list(itertools.product(range(C), repeat=2 * L))
            step = max(1, len(seqs) // (40 if chk.tier == "quick" else 400))
            for seq in seqs[::step]:
                labels = [classes[k] for k in seq[:L]]
                preds = [classes[k] for k in seq[L:]]
                items.append({"clause": "predictions", "labels": labels, "preds": preds, "weights": None, "classes": classes})
                if L:
                    items.append({"clause": "predictions", "labels": labels, "preds": preds, "weights": [0.5 + k for k in range(L)], "classes": classes})
    rng = np.random.RandomState(chk.seed)
    for N in (2, 3, 4):
        for shape in ((N, N), (3, N, N), (2, 2, N, N), (0, N, N)):
            for fl in (False, True):
                n = int(np.prod(shape))
                for rep in range(3 if chk.tier == "quick" else 10):
                    vals = rng.choice([0, 0, 1, 2, 5], size=n)
                    items.append({"clause": "ova", "matrix": vals.tolist(), "shape": list(shape), "float": fl})
        items.append({"clause": "ova", "matrix": [0] * (N * N), "shape": [N, N], "float": False})
        for rep in range(3):
            items.append({"clause": "ova", "matrix": rng.choice([0.0, 0.25, 0.5, 1.75, 2.5], size=N * N).tolist(), "shape": [N, N], "float": True})
            items.append({"clause": "ova", "matrix": rng.choice([0.0, 0.125, 0.375, 0.5], size=2 * N * N).tolist(), "shape": [2, N, N], "float": True})
    chk.bounded["bound"] = "label/prediction sequences of length <= 4 over class lists [0,1], ['x','y','z'], [2,0,1], ['b','a'] (every class order; dict / DataFrame / nested-list forms), unit and positive weights; matrices N=2..4 with cells in {0,1,2,5} and fractional (dyadic) float cells, leading shapes (), (3,), (2,2), (0,)"
    chk.bounded["rule"] = "enumerated sequences (sub-sampled regularly when more than 40 per length), seeded random matrices; each is one case"
    run_bounded(chk, items, eval_items)
    chk.samples.append({"bounded-case": items[17]})


def run(chk):
    prove(chk, build, replay=replay, parts=PARTS)
    bounded(chk)
    chk.extra["assumptions"] = ["from_predictions is proved for the loop unrolled at L<=3 samples and C<=3 classes with all values symbolic (bounded in size, unbounded in values); the DataFrame input path and as_dict are exercised by the bounded layer only"]
