#!/usr/bin/env python3
"""tools/confirm_seeded.py <name> <property-id> <patch> <demo.py|-> <note.txt|-> [--tier quick]

Confirms one seeded property-breaking change and files it under /verif/seeded/<name>/ (patch.diff, demo.py, meta.json):
  1. scratch git worktree of /repo's HEAD outside /repo and /verif (removed at the end)
  2. the demonstration passes on the clean tree, fails with the patch applied
  3. the repository's own test suite still passes with the patch applied
  4. the registered check of the property is run against the patched copy (VERIF_REPO) and its verdict recorded
Nothing is committed to /repo; the mutant never touches /repo's working tree.
"""
import json
import os
import shutil
import subprocess
import sys
import tempfile

VERIF = os.path.dirname(os.path.dirname(os.path.abspath(__file__)))
REPO = "/repo"
PY = "/venv/bin/python"


def sh(cmd, cwd=None, env=None, timeout=3600):
    p = subprocess.run(cmd, cwd=cwd, env=env, shell=isinstance(cmd, str), capture_output=True, text=True, timeout=timeout)
    return p.returncode, (p.stdout + p.stderr)


def main():
    name, pid, patch, demo, note = sys.argv[1:6]
    tier = sys.argv[sys.argv.index("--tier") + 1] if "--tier" in sys.argv else "quick"
    also = sys.argv[sys.argv.index("--also") + 1].split(",") if "--also" in sys.argv else []
    base = tempfile.mkdtemp(prefix="seedwt.")
    wt = os.path.join(base, "wt")
    meta = {"name": name, "property": pid, "head": sh(["git", "-C", REPO, "rev-parse", "--short", "HEAD"])[1].strip()}
    try:
        rc, out = sh(["git", "-C", REPO, "worktree", "add", "--detach", wt, "HEAD"])
        if rc:
            print(out)
            return 2
        if demo != "-":
            rc0, out0 = sh([PY, os.path.abspath(demo)], cwd=wt, timeout=900)
            meta["demo_on_clean_tree"] = {"exit": rc0, "tail": out0.strip().splitlines()[-3:]}
        rc, out = sh(["git", "apply", os.path.abspath(patch)], cwd=wt)
        meta["patch_applies"] = rc == 0
        if rc:
            meta["patch_error"] = out.strip().splitlines()[-3:]
            print(json.dumps(meta, indent=1))
            return 9
        meta["files"] = sh(["git", "diff", "--stat"], cwd=wt)[1].strip().splitlines()
        if demo != "-":
            rc1, out1 = sh([PY, os.path.abspath(demo)], cwd=wt, timeout=900)
            meta["demo_with_patch"] = {"exit": rc1, "tail": out1.strip().splitlines()[-6:]}
        rc, out = sh([PY, "-m", "pytest", "-q", "-p", "no:cacheprovider", "--timeout=900", "-x", "-n", "0"] if False else
                     [PY, "-m", "pytest", "-q", "-p", "no:cacheprovider", "--timeout=900"], cwd=wt, timeout=3000)
        meta["tests_with_patch"] = {"exit": rc, "summary": out.strip().splitlines()[-1:]}
        meta["checks"] = {}
        for cid in [pid] + also:
            ev = os.path.join(base, "ev-" + cid)
            os.makedirs(ev)
            env = dict(os.environ, VERIF_REPO=wt, VERIF_EVIDENCE_DIR=ev, VERIF_REPLAY_DIR=ev)
            rc, out = sh(["./check", cid, "--tier", tier], cwd=VERIF, env=env, timeout=7200)
            lines = out.splitlines()
            viol = [ln for ln in lines if ln.startswith("VIOLATION")]
            clauses = [ln.strip() for ln in lines if ln.startswith("  clause=")]
            und = [ln for ln in lines if ln.startswith("UNDECIDED")]
            import glob
            kinds = {}
            for rp in glob.glob(os.path.join(ev, cid + "-*.json")):
                try:
                    kd = json.load(open(rp)).get("kind")
                except Exception:
                    continue
                kinds[kd] = kinds.get(kd, 0) + 1
            names = {"bounded": "bounded layer (failing input replayed on the real code)", "ground-model": "proof obligation refuted, solver model replayed on the real code",
                     "refuted": "proof obligation refuted (no concrete input)"}
            layers = sorted(names.get(k_, str(k_)) for k_ in kinds)
            cov = {}
            try:
                cov = json.load(open(os.path.join(ev, cid + ".json")))["coverage"]
            except Exception:
                pass
            meta["checks"][cid] = {"tier": tier, "exit": rc, "violations": len(viol), "undecided_obligations": len(und), "layers": layers,
                                   "with_failing_input": sum(1 for v in viol if not v.rstrip().endswith("no-failing-input-found")),
                                   "first_clauses": [c[:300] for c in clauses[:3]], "summary": [ln for ln in lines if " tier=" in ln][-1:],
                                   "violations_by_kind": kinds, "obligations": cov.get("obligations"), "discharged": cov.get("discharged")}
        if note != "-":
            meta["description"] = open(note).read().strip()
            dn = os.path.join(VERIF, "seeded", name, "note.txt")
            os.makedirs(os.path.dirname(dn), exist_ok=True)
            if os.path.abspath(note) != dn:
                shutil.copy(note, dn)
        d = os.path.join(VERIF, "seeded", name)
        os.makedirs(d, exist_ok=True)
        if os.path.abspath(patch) != os.path.join(d, "patch.diff"):
            shutil.copy(patch, os.path.join(d, "patch.diff"))
        if demo != "-":
            if os.path.abspath(demo) != os.path.join(d, "demo.py"):
                shutil.copy(demo, os.path.join(d, "demo.py"))
        meta["confirmed"] = bool(meta["tests_with_patch"]["exit"] == 0 and (demo == "-" or (meta["demo_on_clean_tree"]["exit"] == 0 and meta["demo_with_patch"]["exit"] != 0)))
        meta["detected"] = any(c["exit"] == 1 and c["violations"] > 0 for c in meta["checks"].values())
        json.dump(meta, open(os.path.join(d, "meta.json"), "w"), indent=1)
        print(name, "confirmed" if meta["confirmed"] else "NOT-CONFIRMED", "detected" if meta["detected"] else "MISSED", {k: (v["exit"], v["violations"], v["layers"]) for k, v in meta["checks"].items()})
        return 0
    finally:
        sh(["git", "-C", REPO, "worktree", "remove", "--force", wt])
        shutil.rmtree(base, ignore_errors=True)
        sh(["git", "-C", REPO, "worktree", "prune"])


if __name__ == "__main__":
    sys.exit(main())
