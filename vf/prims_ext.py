"""Further primitive contracts (pandas, RNG, misc); registered on import."""
from z3 import And, BoolSort, ForAll, If, Implies, Int, IntSort, IntVal, Not, Or, Real, RealSort, RealVal, ToReal

from .engine import (FV, INF, NINF, UF, Axis, EnumVal, Obj, T, Unsupported, b_and, b_not, b_or, boollike, intlike,
                     is_scalar, is_sym, ite, lift, pyint, toB, toI, toR)
from .prims import PRIMS, as_tensor, from_list, items_of, mk_array, prim, sel


@prim("pd.DataFrame", is_property=False)
def p_dataframe(ex, path, *a, **k):
    raise Unsupported("pandas DataFrame construction")


PRIMS["pd.DataFrame"] = ("pdDataFrame",)
PRIMS["Iterable"] = ("Iterable",)
