"""C14 -- bootstrapped metrics / intervals are what the sampler and the CI formula produce.

Scores.bootstrap_metric and Scores.bootstrap_ci are executed symbolically (nb_samples symbolic) with
  * the sampler (`bootstrap_sample`) as a contract: the j-th call returns the opaque j-th sample S(j);
  * the metric as an uninterpreted function of the object it is applied to (callable form), or a method name resolved with
    getattr(type(self), name) on Scores / GroupScores / FraudScores (string form);
  * utils.bootstrap_ci as a contract that records its arguments (its own contract is C13).
Obligations: the loop over the samples is a map loop (rows independent, exactly one sampler call per row, in order); row j equals
metric(S(j), **kwargs) and the result has shape (nb_samples,)+metric shape; names resolve on the dynamic class; keyword arguments are
forwarded; bootstrap_ci passes (replicates, metric(self, **kwargs), alpha, config.bootstrap_method) to the CI formula;
structurally, all randomness in the package flows through the global np.random.* functions (reproducibility under np.random.seed).
Identity-sampler collapse and seed reproducibility at run time: bounded layer.
"""
import ast
import os

import numpy as np
from z3 import And, BoolVal, Function, Int, IntSort, Real, RealSort

from vf import bounded as B
from vf.common import multi_path_meta, mk_scores, new_exec, run_method
from vf.engine import Axis, Obj, Oblig, Path, T, same_size, toI, toR
from vf.proof import prove

LEVEL = "proof"


def build(sizes=None, only=None, part=None):
    obs = []
    if sizes is not None:
        return obs
    for cls in ("Scores", "GroupScores", "FraudScores"):
        for form in ("callable", "name"):
            for mshape in ("scalar", "Y"):
                try:
                    obs += build_one(cls, form, mshape)
                except Exception as e:
                    if os.environ.get("VERIF_DEBUG"):
                        import traceback
                        traceback.print_exc()
                    obs.append(Oblig(f"C14/executes[{cls},{form},{mshape}]", [], BoolVal(False), "post", ("C14",), {"engine_error": f"{type(e).__name__}: {e}"}))
    # a custom sampler may return objects of another class (here: plain Scores for a GroupScores source): the name is still
    # resolved on the class of the object bootstrap_metric was called on
    try:
        obs += build_one("GroupScores", "name", "Y", sample_cls="Scores")
    except Exception as e:
        if os.environ.get("VERIF_DEBUG"):
            import traceback
            traceback.print_exc()
        obs.append(Oblig("C14/executes[GroupScores,name,Y,sampler-returns-Scores]", [], BoolVal(False), "post", ("C14",), {"engine_error": f"{type(e).__name__}: {e}"}))
    obs += rng_discipline()
    return obs


def build_one(cls, form, mshape, sample_cls=None):
    obs = []
    tag = f"[{cls},metric-by-{form},metric-shape={'()' if mshape == 'scalar' else '(Y,)'}{',sampler-returns-' + sample_cls if sample_cls else ''}]"
    state = {"sampler_calls": [], "metric_calls": [], "ci_calls": []}
    Mf = Function("MetricOf", IntSort(), IntSort(), RealSort())          # value of the metric on object #id, component y
    kwv = Real("kwarg_threshold")
    Y = Axis("Y", Int("Ysize"))

    def metric_value(obj_id):
        if mshape == "scalar":
            return Mf(obj_id, 0)
        return T((Y,), lambda y, obj_id=obj_id: Mf(obj_id, toI(y)), prov="fresh")

    def obj_id(o):
        return o.attrs["__id__"]

    def c_sampler(ex, path, self_, config=None):
        # contract of the configured sampler: the k-th call returns the k-th sample (opaque object), k = loop index
        k = state.get("loop_index")
        state["sampler_calls"].append((self_, config, k))
        S = Function("SampleId", IntSort(), IntSort())
        return Obj(sample_cls or self_.cls, __id__=S(k) if k is not None else ex.new_int("sample"), __sample_of__=self_)

    def metric_fn(ex, path, o, **kw):
        state["metric_calls"].append((o, kw))
        return metric_value(obj_id(o))

    def c_ci(ex, path, theta=None, theta_hat=None, alpha=None, method=None, **kw):
        state["ci_calls"].append({"theta": theta, "theta_hat": theta_hat, "alpha": alpha, "method": method})
        return T((Axis("2", 2),), lambda b: Real("ci_out"), prov="fresh")
    mname = {"Scores": "fnr", "GroupScores": "group_fnr", "FraudScores": "fnr"}[cls]
    owner_cls = {"Scores": "Scores", "GroupScores": "GroupScores", "FraudScores": "Scores"}[cls]
    contracts = {(c, "bootstrap_sample"): c_sampler for c in ("Scores", "GroupScores")}
    contracts[("utils", "bootstrap_ci")] = c_ci
    if form == "name":
        contracts[(owner_cls, mname)] = lambda ex, path, o, *a, **kw: metric_fn(ex, path, o, **dict(kw, **({"threshold": a[0]} if a else {})))
    ex = new_exec(contracts=contracts)
    path = Path()
    me = mk_scores(ex, path, "pos", "pos", cls=cls, extra_attrs={"__id__": Int("self_id")})
    nb = Int("nb_samples")
    path.add(nb >= 1)
    cfg = Obj("BootstrapConfig", nb_samples=nb, bootstrap_method="bca", sampling_method="dynamic", stratified_sampling=None, smoothing=False, ratio=None)
    metric = ("pyfunc", metric_fn) if form == "callable" else mname

    # intercept the loop index: the map loop executes the body once with a symbolic j; expose it to the sampler contract
    orig_map_loop = ex.map_loop

    def map_loop(s, n, env, p):
        jname = s.target.id
        orig_new_int = ex.new_int

        def new_int(base="k"):
            v = orig_new_int(base)
            if base == "j":
                state["loop_index"] = v
            return v
        ex.new_int = new_int
        try:
            return orig_map_loop(s, n, env, p)
        finally:
            ex.new_int = orig_new_int
            state["loop_n"] = n
    ex.map_loop = map_loop

    def ob(name, goal, hyps, kind="post", meta=None):
        obs.append(Oblig(f"C14/{name}{tag}", hyps, goal, kind, ("C14",), dict({"key": f"C14/{name}"}, **(meta or {}))))
    outs = run_method(ex, cls, "bootstrap_metric", me, [metric], {"config": cfg, "threshold": kwv}, path=path)
    live = [o for o in outs if not o.raised]
    ob("bootstrap_metric/single-normal-path", BoolVal(len(live) == 1 and len(outs) == 1), [], "post", multi_path_meta(outs))
    if len(live) != 1:
        return obs
    res, hy = live[0].value, live[0].path.pc
    okshape = isinstance(res, T) and res.ndim == (1 if mshape == "scalar" else 2) and same_size(res.axes[0].size, nb) and \
        (mshape == "scalar" or same_size(res.axes[1].size, Y.size))
    ob("bootstrap_metric/shape=(nb_samples,)+metric-shape", BoolVal(bool(okshape)), [], "shape")
    ob("bootstrap_metric/loop-is-a-map-loop-over-nb_samples", BoolVal(state.get("loop_n") is not None and same_size(toI(state["loop_n"]), nb)), [], "structural")
    in_loop = [c for c in state["sampler_calls"] if c[2] is not None]
    ob("bootstrap_metric/exactly-one-sampler-call-per-row-on-self-with-the-config", BoolVal(len(in_loop) == 1 and in_loop[0][0] is me and in_loop[0][1] is cfg and len(state["sampler_calls"]) == 1), [], "structural")
    if okshape and in_loop:
        j, y = Int("j!row"), Int("y!comp")
        S = Function("SampleId", IntSort(), IntSort())
        rng_ = [0 <= j, j < nb] + ([0 <= y, y < toI(Y.size)] if mshape != "scalar" else [])
        got = res.elem(j) if mshape == "scalar" else res.elem(j, y)
        ob("bootstrap_metric/row-j-is-the-metric-of-the-j-th-sample", toR(got) == Mf(S(j), y if mshape != "scalar" else 0), hy + rng_)
    kws = [kw for (_, kw) in state["metric_calls"]]
    ob("bootstrap_metric/keyword-arguments-forwarded-to-every-metric-call", BoolVal(bool(kws) and all(set(kw) == {"threshold"} and kw["threshold"] is kwv for kw in kws)), [], "structural")
    if form == "name":
        # the name must resolve on the dynamic class (group-wise metrics exist only on GroupScores)
        try:
            owner, _ = ex.find(cls, mname)
            ob("bootstrap_metric/name-resolved-on-type(self)", BoolVal(owner == owner_cls and any(o is me for o, _ in state["metric_calls"])), [], "structural")
        except KeyError:
            ob("bootstrap_metric/name-resolved-on-type(self)", BoolVal(False), [], "structural")
    # ---- bootstrap_ci
    state["metric_calls"].clear()
    state["sampler_calls"].clear()
    alpha = Real("alpha")
    outs2 = run_method(ex, cls, "bootstrap_ci", me, [metric], {"alpha": alpha, "config": cfg, "threshold": kwv}, path=Path(live[0].path.entries))
    live2 = [o for o in outs2 if not o.raised]
    ob("bootstrap_ci/single-normal-path", BoolVal(len(live2) == 1 and len(outs2) == 1), [], "post", multi_path_meta(outs2))
    if len(live2) == 1 and len(state["ci_calls"]) == 1:
        c = state["ci_calls"][0]
        hy2 = live2[0].path.pc
        th = c["theta"]
        okth = isinstance(th, T) and same_size(th.axes[0].size, nb)
        ob("bootstrap_ci/replicates-passed-are-bootstrap_metric's", BoolVal(bool(okth)), [], "structural")
        if okth:
            j, y = Int("j!row2"), Int("y!comp2")
            S = Function("SampleId", IntSort(), IntSort())
            rng_ = [0 <= j, j < nb] + ([0 <= y, y < toI(Y.size)] if mshape != "scalar" else [])
            got = th.elem(j) if mshape == "scalar" else th.elem(j, y)
            ob("bootstrap_ci/replicate-row-j-is-the-metric-of-the-j-th-sample", toR(got) == Mf(S(j), y if mshape != "scalar" else 0), hy2 + rng_)
        hat = c["theta_hat"]
        y = Int("y!hat")
        hv = hat if mshape == "scalar" else (hat.elem(y) if isinstance(hat, T) and hat.ndim == 1 else None)
        ob("bootstrap_ci/point-estimate-is-the-metric-of-the-original-object", (toR(hv) == Mf(Int("self_id"), y if mshape != "scalar" else 0)) if hv is not None else BoolVal(False), hy2)
        ob("bootstrap_ci/alpha-and-method-passed-on", BoolVal(c["alpha"] is alpha and c["method"] == "bca"), [], "structural")
        ob("bootstrap_ci/returns-the-CI-formula's-result", BoolVal(isinstance(live2[0].value, T)), [], "structural")
    else:
        ob("bootstrap_ci/calls-the-CI-formula-once", BoolVal(False), [], "structural", {"calls": len(state["ci_calls"])})
    for so in ex.obligs:
        so.id = f"C14/safety:{so.id}#{len(obs)}{tag}"
        so.props = ("C14",)
        obs.append(so)
    return obs


def rng_discipline():
    """reproducibility: every random draw in the package goes through a global np.random.<fn>(...) call; no private generator is
    created in the bootstrap code paths (datasets.py takes an explicit rng by design and is outside this property)"""
    obs = []
    from vf.framework import REPO
    for f in ("scores.py", "group_scores.py", "utils.py", "roc_curve.py", "showbias.py"):
        src = open(os.path.join(REPO, "score_analysis", f)).read()
        tree = ast.parse(src)
        bad = []
        for n in ast.walk(tree):
            if isinstance(n, ast.Attribute) and n.attr in ("default_rng", "RandomState", "Generator", "SeedSequence", "seed", "PCG64", "MT19937"):
                bad.append(f"{f}:{n.lineno}:{n.attr}")
            if isinstance(n, (ast.Import, ast.ImportFrom)):
                mods = [a.name for a in n.names] + ([n.module] if isinstance(n, ast.ImportFrom) and n.module else [])
                if any(m == "random" or m.startswith("random.") or m.startswith("secrets") for m in mods):
                    bad.append(f"{f}:{n.lineno}:import random")
        obs.append(Oblig(f"C14/reproducibility/only-global-np.random-state[{f}]", [], BoolVal(not bad), "structural", ("C14",), {"found": bad}))
    return obs


# ----------------------------------------------------------------------------------------------------------------
# bounded layer

def oracle(case):
    from vf.framework import real_repo
    sa = real_repo()
    from score_analysis import BootstrapConfig, GroupScores, Scores
    from score_analysis.utils import bootstrap_ci as ci_formula
    rng = np.random.RandomState(case["seed"])
    pos, neg = rng.normal(1.0, 1.0, size=case["npos"]), rng.normal(0.0, 1.0, size=case["nneg"])
    kind = case["cls"]
    if kind == "GroupScores":
        s = GroupScores(pos, neg, pos_groups=rng.choice(["a", "b"], size=len(pos)), neg_groups=rng.choice(["a", "b"], size=len(neg)))
        metric, mkw = "group_fnr", {"threshold": np.array([0.2, 0.8])}
    else:
        s = Scores(pos, neg, nb_easy_pos=case.get("ep", 0), nb_easy_neg=case.get("en", 0))
        metric, mkw = case.get("metric", "fnr"), {"threshold": np.array([0.2, 0.8, 1.5])}
    info = f"[{case}]"
    calls = []

    def counting_sampler(src):
        k = len(calls)
        calls.append(src)
        return type(src)(src.pos + 0.01 * k, src.neg, **({"pos_groups": src.pos_groups, "neg_groups": src.neg_groups} if kind == "GroupScores" else {}))
    nb = case["nb"]
    cfg = BootstrapConfig(nb_samples=nb, sampling_method=counting_sampler, bootstrap_method=case["method"])
    rows = s.bootstrap_metric(metric, config=cfg, **mkw)
    m0 = np.asarray(getattr(type(s), metric)(s, **mkw))
    if rows.shape != (nb,) + m0.shape:
        return f"bootstrap_metric shape {rows.shape}, expected {(nb,) + m0.shape} {info}"
    if len(calls) != nb or any(c is not s for c in calls):
        return f"sampler called {len(calls)} times (expected {nb}, each on the original object) {info}"
    for j in range(nb):
        exp = np.asarray(getattr(type(s), metric)(counting_sampler.__call__(s) if False else type(s)(s.pos + 0.01 * j, s.neg, **({"pos_groups": s.pos_groups, "neg_groups": s.neg_groups} if kind == "GroupScores" else {})), **mkw))
        if not np.array_equal(rows[j], exp, equal_nan=True):
            return f"row {j} is not the metric of the {j}-th sample {info}"
    # callable metric + kwargs
    f = lambda o, threshold, scale=1.0: scale * o.fnr(threshold)
    rows2 = s.bootstrap_metric(f, config=BootstrapConfig(nb_samples=3, sampling_method=lambda o: o), threshold=0.5, scale=2.0)
    if not np.array_equal(rows2, np.full(3, 2.0 * s.fnr(0.5)), equal_nan=True):
        return f"callable metric / keyword forwarding: {rows2.tolist()} {info}"
    # bootstrap_ci = formula(replicates, metric(self))
    calls.clear()
    got = s.bootstrap_ci(metric, alpha=case["alpha"], config=cfg, **mkw)
    with np.errstate(all="ignore"):
        exp = ci_formula(theta=rows, theta_hat=m0, alpha=case["alpha"], method=case["method"])
    if not np.array_equal(np.asarray(got), np.asarray(exp), equal_nan=True):
        return f"bootstrap_ci {np.asarray(got).tolist()} is not the CI formula applied to the replicates with the original metric as estimate {np.asarray(exp).tolist()} {info}"
    # ... and equals an independent transcription of the documented formula (scalar alpha; vector alpha for the quantile method)
    from props.c13 import reference
    with np.errstate(all="ignore"):
        ref = reference(np.asarray(rows, dtype=float), m0, case["alpha"], case["method"])
    if not np.allclose(np.asarray(got), ref, rtol=1e-12, atol=1e-12, equal_nan=True):
        return f"bootstrap_ci {np.asarray(got).tolist()} differs from the documented {case['method']} formula on the replicates {ref.tolist()} {info}"
    if case["method"] == "quantile":
        al = np.array([0.02, 0.1, 0.4])
        calls.clear()
        gotv = np.asarray(s.bootstrap_ci(metric, alpha=al, config=cfg, **mkw))
        if gotv.shape != m0.shape + (3, 2):
            return f"bootstrap_ci with vector alpha has shape {gotv.shape}, expected {m0.shape + (3, 2)} {info}"
        for k, a_ in enumerate(al):
            with np.errstate(all="ignore"):
                refk = reference(np.asarray(rows, dtype=float), m0, float(a_), "quantile")
            if not np.allclose(gotv[..., k, :], refk, rtol=1e-12, atol=1e-12, equal_nan=True):
                return f"bootstrap_ci with vector alpha: entry {k} {gotv[..., k, :].tolist()} differs from the documented quantile limits {refk.tolist()} {info}"
    # names are resolved on the class of the object, also when a custom sampler returns objects of another class
    if kind != "GroupScores":
        class Doubled(Scores):
            def fnr(self, threshold):
                return 2.0 * Scores.fnr(self, threshold)

            def only_here(self, threshold):
                return Scores.tpr(self, threshold) + 1.0
        d = Doubled(pos, neg)
        plain = lambda o: Scores(o.pos + 0.01, o.neg)
        for nm in ("fnr", "only_here"):
            try:
                rws = d.bootstrap_metric(nm, config=BootstrapConfig(nb_samples=2, sampling_method=plain), threshold=0.5)
            except Exception as e:
                return f"metric name {nm!r} of a subclass with a sampler returning plain Scores raised {type(e).__name__}: {e} {info}"
            want = getattr(Doubled, nm)(plain(d), 0.5)
            if not np.array_equal(rws, np.full(2, want), equal_nan=True):
                return f"metric name {nm!r} was not resolved on the object's own class: rows {rws.tolist()}, expected {want} {info}"
    # identity sampler: collapses to the point estimate
    with np.errstate(all="ignore"):
        ci = s.bootstrap_ci(metric, alpha=case["alpha"], config=BootstrapConfig(nb_samples=5, sampling_method=lambda o: o, bootstrap_method=case["method"]), **mkw)
    if not np.allclose(np.asarray(ci), np.stack([m0, m0], axis=-1), rtol=0, atol=1e-15, equal_nan=True):
        return f"identity sampler: interval {np.asarray(ci).tolist()} does not collapse to the point estimate {m0.tolist()} {info}"
    # reproducibility under the global seed, built-in samplers
    for sm, strat, smooth in case["builtin"]:
        cfg2 = BootstrapConfig(nb_samples=4, sampling_method=sm, stratified_sampling=strat, smoothing=smooth, ratio=0.6, bootstrap_method=case["method"])
        outs = []
        for rep in range(2):
            np.random.seed(1234 + case["seed"])
            with np.errstate(all="ignore"):
                outs.append((s.bootstrap_metric(metric, config=cfg2, **mkw), s.bootstrap_ci(metric, alpha=0.1, config=cfg2, **mkw)))
        if not (np.array_equal(outs[0][0], outs[1][0], equal_nan=True) and np.array_equal(outs[0][1], outs[1][1], equal_nan=True)):
            return f"not reproducible under np.random.seed with sampling_method={sm!r}, stratified={strat!r}, smoothing={smooth} {info}"
    return None


def replay(case):
    return oracle(case)


def eval_items(items):
    counts, viols = {"bootstrap": [0, 0]}, []
    for case in items:
        try:
            res = oracle(case)
        except Exception as e:
            import traceback
            res = f"raised {type(e).__name__}: {e} for {case}"
        counts["bootstrap"][0] += 1
        counts["bootstrap"][1] += 1
        if res:
            kind = res.split(":")[0].split(" ")[0] + ("-" + res.split(" ")[1] if " " in res else "")
            viols.append(("bootstrap", f"C14/bounded/{kind[:40]}", res, B.jsonable(case)))
    return counts, viols, []


def bounded(chk):
    from vf.framework import run_bounded
    items = []
    builtin_scores = [("replacement", None, False), ("replacement", "by_label", False), ("replacement", None, True), ("dynamic", None, False), ("dynamic", None, True),
                      ("proportion", None, False)]
    builtin_groups = [("replacement", None, False), ("replacement", "by_label", False), ("replacement", "by_group", False), ("dynamic", "by_group", False)]
    for seed in range(3 if chk.tier == "quick" else 10):
        for method in ("quantile", "bc", "bca"):
            for cls in ("Scores", "GroupScores"):
                items.append({"cls": cls, "npos": 12, "nneg": 9, "nb": 6, "method": method, "alpha": 0.1, "seed": chk.seed * 100 + seed,
                              "builtin": builtin_scores if cls == "Scores" else builtin_groups, "ep": seed % 3, "en": (seed + 1) % 2})
            items.append({"cls": "Scores", "npos": 150, "nneg": 140, "nb": 4, "method": method, "alpha": 0.05, "seed": chk.seed * 100 + seed,
                          "builtin": [("dynamic", None, False), ("single_pass", None, False), ("single_pass", "by_label", False)], "metric": "tpr"})
    chk.bounded["bound"] = "Scores / GroupScores with 9..150 scores per class, counting deterministic sampler (row j vs j-th sample), callable metric with kwargs, identity sampler, all three CI methods (scalar alpha; vector alpha for quantile) against an independent transcription of the formulas, a subclass with overridden / additional metrics under a sampler returning the base class, every built-in sampling configuration run twice under the same global seed"
    chk.bounded["rule"] = "seeded grid"
    run_bounded(chk, items, eval_items)
    chk.samples.append({"bounded-case": items[0]})


def run(chk):
    prove(chk, build, replay=replay)
    bounded(chk)
