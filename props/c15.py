"""C15 -- ROC curves are genuine operating points, ordered along the chosen x-axis.

roc() and _find_support_thresholds (nb_extra_points=None) are executed symbolically for every combination of supplied
thresholds / fnr / fpr arrays (symbolic lengths) and for the two 'nothing supplied' branches; contracts:
  rates      the returned fnr / fpr are the real Scores.fnr / Scores.fpr applied to exactly the returned thresholds
  composed   the thresholds are sort(concatenate(user thresholds, threshold_at_fnr(fnr), threshold_at_fpr(fpr))) (the parts are
             compared element by element with independent symbolic executions of the real threshold_at_* ), possibly reversed
             -> every supplied / derived threshold is contained (permutation contract of np.sort)
  length     K + F + P, nb_points, or |pos| + |neg|
  ordered    for 8 x_axis names x 2 score directions the named metric (counted by the documented decision rule) is non-decreasing
             along the result
  views      ROCCurve.tpr/tnr/... are complements / aliases of fnr / fpr; *_ci views; unknown x_axis raises ValueError
"""
import itertools

import numpy as np
from z3 import And, Array, BoolVal, Implies, Int, IntSort, Not, Or, Real, RealSort

from vf import bounded as B
from vf import prims as P
from vf.common import mk_scores, new_exec, predpos, run_function, run_method
from vf.engine import FV, Axis, Obj, Oblig, Path, PyRaise, T, same_size, toB, toI, toR
from vf.proof import prove
from props.c10 import same_val

LEVEL = "proof"
XAXES = ["fnr", "fpr", "tnr", "tpr", "far", "frr", "tar", "trr"]
CANON = {"far": "fpr", "frr": "fnr", "tar": "tpr", "trr": "tnr"}


def named(ex, path, name, asc=False):
    return P.mk_array(ex, path, name, None, ascending=asc, prov="param:" + name)


def count_x(metric, sc, ec, me, th):
    m = CANON.get(metric, metric)
    pp_p, pp_n = predpos(sc, ec, me.attrs["pos"], th), predpos(sc, ec, me.attrs["neg"], th)
    npos, nneg = toI(me.attrs["pos"].axes[0].size), toI(me.attrs["neg"].axes[0].size)
    # numerators only: denominators are constant along the curve
    return {"tpr": pp_p, "fnr": npos - pp_p, "tnr": nneg - pp_n, "fpr": pp_n}[m]


def build(sizes=None, only=None, part=None):
    obs = []
    if sizes is not None:
        return obs
    for sc, ec in B.CONFIGS:
        if part is not None and part != f"{sc},{ec}":
            continue
        for x_axis in XAXES:
            for supply in ("all", "none-nb_points", "none-all-scores"):
                obs += build_run(sc, ec, x_axis, supply)
        for supply in ("thr", "fnr", "fpr", "thr+fnr", "thr+fpr", "fnr+fpr"):
            obs += build_run(sc, ec, "fpr", supply)
        obs += build_invalid(sc, ec)
    if part in (None, "misc"):
        obs += build_views()
    return obs


PARTS = [f"{sc},{ec}" for sc, ec in B.CONFIGS] + ["misc"]


def build_run(sc, ec, x_axis, supply):
    tag = f"[{sc},{ec},x={x_axis},{supply}]"
    obs = []

    def ob(name, goal, hyps, kind="post", meta=None):
        obs.append(Oblig(f"C15/{name}{tag}", hyps, goal, kind, ("C15",), dict({"key": f"C15/{name}[{x_axis},{sc}]"}, **(meta or {}))))
    try:
        ex = new_exec()
        path = Path()
        me = mk_scores(ex, path, sc, ec, min_pos=1, min_neg=1)
        thr = named(ex, path, "user_thr") if "thr" in supply or supply == "all" else None
        fnr = named(ex, path, "user_fnr") if "fnr" in supply or supply == "all" else None
        fpr = named(ex, path, "user_fpr") if "fpr" in supply or supply == "all" else None
        if supply == "none-nb_points":
            nbp = Int("nb_points")
            path.add(nbp >= 2)
        else:
            nbp = None if supply == "none-all-scores" else 100
        tot = sum([toI(a.axes[0].size) for a in (thr, fnr, fpr) if a is not None], 0)
        if thr is not None or fnr is not None or fpr is not None:
            path.add(tot >= 1)            # otherwise the 'nothing supplied' branch applies (covered by the two none-* runs)
        kw = {"fnr": fnr, "fpr": fpr, "thresholds": thr, "nb_points": nbp, "x_axis": x_axis}
        outs = run_function(ex, "roc_curve", "roc", [me], kw, path=path)
    except Exception as e:
        import os
        if os.environ.get("VERIF_DEBUG"):
            import traceback
            traceback.print_exc()
        ob("executes", BoolVal(False), [], meta={"engine_error": f"{type(e).__name__}: {e}"})
        return obs
    live = [o for o in outs if not o.raised]
    # supplied arrays may all be empty: then the 'nothing supplied' branch is taken; consider the paths with the declared shape
    for pi, o in enumerate(live):
        res, p = o.value, o.path
        ptag = f"/path{pi}" if len(live) > 1 else ""
        ok = isinstance(res, Obj) and res.cls == "ROCCurve" and all(isinstance(res.attrs.get(k), T) and res.attrs[k].ndim == 1 for k in ("fnr", "fpr", "thresholds"))
        ob(f"returns-ROCCurve-of-1d-arrays{ptag}", BoolVal(bool(ok)), [], "shape")
        if not ok:
            continue
        th = res.attrs["thresholds"]
        n = toI(th.axes[0].size)
        hy = p.pc
        ob(f"equal-lengths{ptag}", And(toI(res.attrs["fnr"].axes[0].size) == n, toI(res.attrs["fpr"].axes[0].size) == n), hy, "shape")
        # rates: independent symbolic execution of the real Scores.fnr / fpr at a generic returned threshold
        i, j = ex.new_int("i"), ex.new_int("j")
        rng_ = And(0 <= i, i < n, 0 <= j, j < n, i <= j)
        for q in ("fnr", "fpr"):
            ex2 = new_exec()
            me2 = mk_scores(ex2, Path(), sc, ec, min_pos=1, min_neg=1)
            p2 = Path(hy_entries(p))
            (o2,) = run_method(ex, "Scores", q, me, [th.elem(i)], path=p2)
            ob(f"rates/{q}-is-the-object's-{q}-at-the-returned-threshold{ptag}", same_val(res.attrs[q].elem(i), o2.value), o2.path.pc + [rng_])
        # length
        npos, nneg = toI(me.attrs["pos"].axes[0].size), toI(me.attrs["neg"].axes[0].size)
        parts_len = sum([toI(a.axes[0].size) for a in (thr, fnr, fpr) if a is not None], 0)
        if supply == "none-nb_points":
            ob(f"length-nb_points{ptag}", n == nbp, hy)
        elif supply == "none-all-scores":
            ob(f"length-one-point-per-scored-sample{ptag}", n == npos + nneg, hy)
        else:
            ob(f"length-sum-of-supplied{ptag}", Implies(parts_len > 0, n == parts_len), hy)
        # ordered along the x-axis (counts by the documented rule; L3 instances at the two generic positions)
        hy2 = list(hy) + [rng_]
        for arr in (me.attrs["pos"], me.attrs["neg"]):
            A, N = arr.sym
            hy2 += [P.cnt_char(A, N, toR(th.elem(i))), P.cnt_char(A, N, toR(th.elem(j))), P.cnt_mono(A, N, toR(th.elem(i)), toR(th.elem(j)))]
        ob(f"ordered/{x_axis}-non-decreasing-along-the-curve{ptag}", count_x(x_axis, sc, ec, me, toR(th.elem(i))) <= count_x(x_axis, sc, ec, me, toR(th.elem(j))), hy2)
        # composition / containment
        if supply not in ("none-nb_points", "none-all-scores"):
            obs += composed(ex, me, sc, ec, th, thr, fnr, fpr, p, tag + ptag, x_axis)
    for so in ex.obligs:
        so.id = f"C15/safety:{so.id}#{len(obs)}{tag}"
        so.props = ("C15",)
        obs.append(so)
    return obs


def hy_entries(p):
    return list(p.entries)


def root_sorted(th):
    """strip reversal views: returns (the np.sort result the returned array is a (possibly reversed) view of, reversed?)"""
    return getattr(th, "view_of", None)


def composed(ex, me, sc, ec, th, thr, fnr, fpr, p, tag, x_axis):
    obs = []

    def ob(name, goal, hyps, kind="post", meta=None):
        obs.append(Oblig(f"C15/{name}{tag}", hyps, goal, kind, ("C15",), dict({"key": f"C15/{name}"}, **(meta or {}))))
    S = ex.__dict__.get("last_sorted")
    src = getattr(S, "sorted_of", None) if S is not None else None
    ok = S is not None and src is not None
    ob("composed/result-is-np.sort-of-the-collected-thresholds", BoolVal(bool(ok)), [], "structural")
    if not ok:
        return obs
    n = toI(th.axes[0].size)
    k = ex.new_int("k")
    hy = p.pc
    # the returned array is S or S reversed
    A, N = S.sym
    ob("composed/returned-array-is-the-sorted-array-or-its-reversal", Or(toR(th.elem(k)) == A[k], toR(th.elem(k)) == A[N - 1 - k]), hy + [0 <= k, k < n, n == N])
    expected = rev_expected(x_axis, sc)
    ob("composed/reversal-rule", (toR(th.elem(k)) == A[N - 1 - k]) if expected else (toR(th.elem(k)) == A[k]), hy + [0 <= k, k < n, n == N])
    # the parts, in order, are the user thresholds and the real threshold_at_fnr / threshold_at_fpr of the supplied rates
    want = [("user-thresholds", thr, None), ("threshold_at_fnr(fnr)", fnr, "threshold_at_fnr"), ("threshold_at_fpr(fpr)", fpr, "threshold_at_fpr")]
    want = [w for w in want if w[1] is not None]
    parts = list(getattr(src, "parts", None) or [src])
    ob("composed/number-of-parts", BoolVal(len(parts) == len(want)), [], "structural")
    if len(parts) != len(want):
        return obs
    for part, (nm, arr, fn) in zip(parts, want):
        L = toI(arr.axes[0].size)
        if fn is None:
            ob(f"composed/part-{nm}", And(toI(part.axes[0].size) == L, toR(part.elem(k)) == toR(arr.elem(k))), hy + [0 <= k, k < L])
        else:
            (o2,) = run_method(ex, "Scores", fn, me, [arr.elem(k)], path=Path(hy_entries(p)))
            v = o2.value
            ob(f"composed/part-{nm}", And(toI(part.axes[0].size) == L, toR(part.elem(k)) == toR(v)), o2.path.pc + [0 <= k, k < L])
    return obs


def rev_expected(x_axis, sc):
    a = CANON.get(x_axis, x_axis) in ("fpr", "tpr")
    return a != (sc == "neg")


def build_invalid(sc, ec):
    ex = new_exec()
    path = Path()
    me = mk_scores(ex, path, sc, ec, min_pos=1, min_neg=1)
    try:
        thr = named(ex, path, "user_thr")
        path.add(toI(thr.axes[0].size) >= 1)
        outs = run_function(ex, "roc_curve", "roc", [me], {"thresholds": thr, "x_axis": "auc"}, path=path)
        ok = bool(outs) and all(o.raised and "ValueError" in str(o.value.exc) for o in outs)
        return [Oblig(f"C15/unknown-x_axis-raises-ValueError[{sc},{ec}]", [], BoolVal(ok), "post", ("C15",))]
    except Exception as e:
        return [Oblig(f"C15/unknown-x_axis-raises-ValueError[{sc},{ec}]", [], BoolVal(False), "post", ("C15",), {"engine_error": f"{type(e).__name__}: {e}"})]


def build_views():
    obs = []
    ex = new_exec()
    path = Path()
    fnr, fpr, thr = named(ex, path, "fnr"), named(ex, path, "fpr"), named(ex, path, "thr")
    L, U = Array("ci_lo", IntSort(), RealSort()), Array("ci_hi", IntSort(), RealSort())
    n = fnr.axes[0]
    ci = T((n, Axis("2", 2)), lambda i, b: P.sel([L[toI(i)], U[toI(i)]], b), prov="attr:fnr_ci")
    ci2 = T((n, Axis("2", 2)), lambda i, b: P.sel([U[toI(i)], L[toI(i)]], b), prov="attr:fpr_ci")
    k = ex.new_int("k")
    for with_ci in (False, True):
        roc = Obj("ROCCurve", fnr=fnr, fpr=fpr, thresholds=thr, fnr_ci=ci if with_ci else None, fpr_ci=ci2 if with_ci else None)
        tag = "[with-ci]" if with_ci else "[no-ci]"

        def get(name):
            return ex.getattr(roc, name, path)
        try:
            checks = [("tpr", 1 - toR(fnr.elem(k))), ("tnr", 1 - toR(fpr.elem(k))), ("frr", toR(fnr.elem(k))), ("far", toR(fpr.elem(k))),
                      ("tar", 1 - toR(fnr.elem(k))), ("trr", 1 - toR(fpr.elem(k)))]
            for nm, want in checks:
                v = get(nm)
                obs.append(Oblig(f"C15/views/{nm}{tag}", path.pc, toR(v.elem(k)) == want if isinstance(v, T) else BoolVal(False), "post", ("C15",)))
            for nm, src, compl in (("tpr_ci", ci, True), ("tnr_ci", ci2, True), ("frr_ci", ci, False), ("far_ci", ci2, False), ("tar_ci", ci, True), ("trr_ci", ci2, True)):
                v = get(nm)
                if not with_ci:
                    obs.append(Oblig(f"C15/views/{nm}-is-None{tag}", [], BoolVal(v is None), "post", ("C15",)))
                    continue
                if not isinstance(v, T) or v.ndim != 2:
                    obs.append(Oblig(f"C15/views/{nm}{tag}", [], BoolVal(False), "post", ("C15",)))
                    continue
                if compl:
                    g = And(toR(v.elem(k, 0)) == 1 - toR(src.elem(k, 1)), toR(v.elem(k, 1)) == 1 - toR(src.elem(k, 0)))
                else:
                    g = And(toR(v.elem(k, 0)) == toR(src.elem(k, 0)), toR(v.elem(k, 1)) == toR(src.elem(k, 1)))
                obs.append(Oblig(f"C15/views/{nm}{tag}", path.pc, g, "post", ("C15",)))
        except Exception as e:
            obs.append(Oblig(f"C15/views/executes{tag}", [], BoolVal(False), "post", ("C15",), {"engine_error": f"{type(e).__name__}: {e}"}))
    return obs


# ----------------------------------------------------------------------------------------------------------------
# bounded layer

def oracle(case):
    from vf.framework import real_repo
    sa = real_repo()
    from score_analysis import roc
    dt = np.dtype(case.get("dtype", "float64"))
    pos, neg = np.array(case["pos"], dtype=dt), np.array(case["neg"], dtype=dt)
    sc, ec = case["sc"], case["ec"]
    s = sa.Scores(pos, neg, nb_easy_pos=case["ep"], nb_easy_neg=case["en"], score_class=sc, equal_class=ec)
    info = f"[pos={case['pos']} neg={case['neg']} easy=({case['ep']},{case['en']}) {sc}/{ec} x_axis={case['x_axis']} supplied={case['supply']}]"
    kw = {}
    for k_ in ("fnr", "fpr", "thresholds"):
        if case["supply"].get(k_) is not None:
            kw[k_] = np.array(case["supply"][k_], dtype=float)
    nbp = case["supply"].get("nb_points", 100)
    c = roc(s, nb_points=nbp, x_axis=case["x_axis"], **kw)
    th = np.asarray(c.thresholds)
    if not (len(c.fnr) == len(c.fpr) == len(th)):
        return f"lengths differ {info}"
    if not (np.array_equal(c.fnr, s.fnr(th), equal_nan=True) and np.array_equal(c.fpr, s.fpr(th), equal_nan=True)):
        return f"returned rates are not the object's rates at the returned thresholds {info}"
    x = getattr(c, case["x_axis"])
    if np.any(np.diff(x) < 0):
        return f"{case['x_axis']} decreases along the curve: {np.asarray(x).tolist()} {info}"
    if not kw:
        want = nbp if nbp is not None else len(pos) + len(neg)
        if len(th) != want:
            return f"curve has {len(th)} points, expected {want} {info}"
    else:
        must = list(kw.get("thresholds", []))
        if "fnr" in kw:
            must += list(s.threshold_at_fnr(kw["fnr"]))
        if "fpr" in kw:
            must += list(s.threshold_at_fpr(kw["fpr"]))
        if sorted(must) != sorted(th.tolist()):
            return f"thresholds {th.tolist()} are not exactly the supplied/derived ones {sorted(must)} {info}"
    for a, b_, f in (("tpr", "fnr", lambda v: 1 - v), ("tnr", "fpr", lambda v: 1 - v), ("frr", "fnr", lambda v: v), ("far", "fpr", lambda v: v),
                     ("tar", "fnr", lambda v: 1 - v), ("trr", "fpr", lambda v: 1 - v)):
        if not np.array_equal(getattr(c, a), f(getattr(c, b_)), equal_nan=True):
            return f"view {a} is not the complement/alias of {b_} {info}"
    return None


def replay(case):
    return oracle(case)


def eval_items(items):
    counts, viols = {"roc": [0, 0]}, []
    for case in items:
        try:
            res = oracle(case)
        except Exception as e:
            res = f"roc raised {type(e).__name__}: {e} [pos={case['pos']} neg={case['neg']} {case['sc']}/{case['ec']} x_axis={case['x_axis']} supplied={case['supply']}]"
        counts["roc"][0] += 1
        counts["roc"][1] += 1
        if res:
            viols.append(("roc", f"C15/bounded/{res.split(' ')[0]}[{case['x_axis']},{case['sc']},{case['ec']}]", res, B.jsonable(case)))
    return counts, viols, []


def bounded(chk):
    from vf.framework import run_bounded
    maxn = 4 if chk.tier == "quick" else 5
    supplies = [{"nb_points": None}, {"nb_points": 7}, {"nb_points": 2}, {"thresholds": [0.5, 2.0, 2.0, 9.0]}, {"fnr": [0.0, 0.3, 1.0]}, {"fpr": [0.5, 0.1]},
                {"fnr": [0.2], "fpr": [0.2, 0.9], "thresholds": [1.5]}]
    items = []
    for pos, neg in B.order_types(maxn, min_pos=1, min_neg=1):
        for ep, en in ((0, 0), (2, 1)):
            for sc, ec in B.CONFIGS:
                for xa in XAXES:
                    for sup in (supplies if (len(pos) + len(neg) <= 3 or xa in ("fpr", "tnr")) else supplies[:2]):
                        items.append({"pos": pos, "neg": neg, "ep": ep, "en": en, "sc": sc, "ec": ec, "x_axis": xa, "supply": sup})
    # supplied / derived thresholds that are all exactly 0, and scores of other dtypes (the thresholds stay float64)
    for sc, ec in B.CONFIGS:
        for xa in ("fpr", "fnr"):
            for sup in ({"thresholds": [0.0]}, {"thresholds": [0.0, 0.0]}, {"fnr": [0.5]}, {"fpr": [0.5]}):
                items.append({"pos": [-1.0, 1.0], "neg": [-1.0, 1.0], "ep": 0, "en": 0, "sc": sc, "ec": ec, "x_axis": xa, "supply": sup})
            for dtn in ("int64", "float32"):
                for sup in ({"thresholds": [0.5, 2.5]}, {"fnr": [0.0, 0.3, 1.0]}, {"fpr": [0.0, 0.6, 1.0]}, {"nb_points": 5}):
                    items.append({"pos": [2, 3, 5], "neg": [1, 3, 4], "ep": 0, "en": 0, "sc": sc, "ec": ec, "x_axis": xa, "supply": sup, "dtype": dtn})
    chk.bounded["bound"] = f"all-zero supplied / derived thresholds; int64 and float32 score arrays; all order types with both classes non-empty, pos+neg <= {maxn}; easy (0,0),(2,1); 4 configurations; 8 x_axis names; supplied-argument combinations {supplies}"
    chk.bounded["rule"] = "enumerated; each (dataset, configuration, x_axis, supply) is one case"
    chk.bounded["exhaustive"] = True
    run_bounded(chk, items, eval_items)
    chk.samples.append({"bounded-case": items[min(99, len(items) - 1)]})


def run(chk):
    prove(chk, build, replay=replay, parts=PARTS)
    bounded(chk)
