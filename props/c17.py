"""C17 -- general threshold search returns true solutions of the interpolated metric.

utils.invert_pl_function is executed symbolically for one (scalar) target over sample arrays x, y of unbounded length (vector
targets are independent per target: bounded layer).  np.nonzero has its documented contract (exactly the true positions, row-major
ascending); the loop over the crossings is handled by a *per-iteration body contract*: the body is executed once for a generic
crossing k and every appended solution is recorded as element k of the result.
  crossing path  for each crossing k at segment j: the weight la lies in [0,1), no division by zero (y_j != y_{j+1} on a crossing),
                 x_j <= z < x_{j+1}, the piecewise-linear interpolant at z equals the target; consecutive solutions strictly increase
                 (segments ascend and a crossing segment has x_j < x_{j+1} by the pre-condition x_i = x_{i+1} => y_i = y_{i+1})
  fallback path  no crossing: the single returned point is x[m] with |y_m - t| minimal (np.argmin contract)
  completeness   lemma L17 (discrete intermediate-value theorem, by induction over the end index; base, step and the two one-segment
                 detection facts are obligations of every run, stated on the *code's own* mask handed to np.nonzero):
                 y_a <= t < y_n or y_a >= t > y_n with a <= n implies a detected crossing in [a, n).  Hence the fallback path is
                 taken only when all samples lie (weakly) on one side of the target, where the closest sample point is the closest
                 point of the whole interpolant; a sample exactly on the target makes the fallback point an exact solution
  shape          scalar target -> bare array
threshold_at_metric: executed against the contract of invert_pl_function: the sample points are the sorted scores / k evenly spaced
points from min to max / the user's array, y = metric(self, points), the target is passed on, ValueError exactly when fewer than two
(distinct) points, metric names are resolved on type(self).
"""
import os

import numpy as np
from z3 import And, BoolVal, If, Implies, Int, Not, Or, Real

from vf import bounded as B
from vf import prims as P
from vf.common import mk_scores, new_exec, run_function, run_method
from vf.engine import Axis, Obj, Oblig, Path, T, same_size, toB, toI, toR
from vf.proof import prove

LEVEL = "proof"


class Solutions:
    """result list of one target: symbolic sequence of K crossing solutions, or (when K = 0) the fallback point"""

    def __init__(self, K, zfun, fallback=None):
        self.sym_len, self.zfun, self.fallback = K, zfun, fallback

    def fork_copy(self):
        return Solutions(self.sym_len, self.zfun, self.fallback)

    def append(self, v):
        self.fallback = v

    def as_tensor(self):
        if self.fallback is not None:
            fb = self.fallback
            if isinstance(fb, T):
                return T((Axis("1", 1),) + fb.axes, lambda k, *r: fb.elem(*r), prov="fresh")
            return T((Axis("1", 1),), lambda k: fb, prov="fresh")
        return T((Axis("solutions", self.sym_len),), lambda k: self.zfun(toI(k)), prov="fresh")


def build(sizes=None, only=None, part=None):
    obs = []
    if sizes is not None:
        return obs
    for fn in (build_invert, build_threshold_at_metric):
        try:
            obs += fn()
        except Exception as e:
            if os.environ.get("VERIF_DEBUG"):
                import traceback
                traceback.print_exc()
            obs.append(Oblig(f"C17/{fn.__name__[6:]}/executes", [], BoolVal(False), "post", ("C17",), {"engine_error": f"{type(e).__name__}: {e}"}))
    return obs


def build_invert():
    obs = []
    state = {}

    def crossing_loop(ex, s, it, env, path):
        """per-iteration body contract of  `for t_ind, j in zip(t_indices, s_indices)`"""
        seqs = it[1]
        t_idx, s_idx = seqs
        K = toI(s_idx.axes[0].size)
        k = ex.new_int("k_cross")
        rec = []
        real_list = env["s"]
        holder = [[]]
        env2 = dict(env)
        env2["s"] = holder
        env2["t_ind"] = 0                       # one target row
        env2["j"] = s_idx.elem(k)
        p2 = path.copy()
        p2.add(And(0 <= k, k < K))
        ends = []
        ex.block(list(s.body), env2, p2, [], lambda e_, p_: ends.append((e_, p_)))
        if len(ends) != 1 or len(holder[0]) != 1:
            from vf.engine import Unsupported
            raise Unsupported("crossing loop body: expected exactly one appended solution per crossing")
        z_k = holder[0][0]
        state.update(k=k, z=z_k, la=ends[0][0].get("la"), j=s_idx.elem(k), K=K, body_path=ends[0][1], s_idx=s_idx)
        from z3 import substitute
        env["s"] = [Solutions(K, lambda q, z_k=z_k, k=k: substitute(toR(z_k), (k, q)))]
    ex = new_exec(invariants={("invert_pl_function", "for", 0): {"handler": crossing_loop}})
    path = Path()
    x = P.mk_array(ex, path, "x", None, ascending=True, prov="param:x", min_len=1)
    y = P.mk_array(ex, path, "y", None, floats=False, prov="param:y")
    X, N = x.sym
    Y, _ = y.sym
    y = y.with_(axes=(Axis("y", N),))
    y.sym = (Y, N)
    i = Int("i!pre")
    from z3 import ForAll
    path.add(ForAll([i], Implies(And(0 <= i, i + 1 < N, X[i] == X[i + 1]), Y[i] == Y[i + 1]), patterns=[X[i]]))      # pre-condition of the docstring
    t = Real("t")
    outs = run_function(ex, "utils", "invert_pl_function", [x, y, t], {}, path=path)
    live = [o for o in outs if not o.raised]

    def ob(name, goal, hyps, kind="post", meta=None):
        obs.append(Oblig(f"C17/invert_pl_function/{name}", hyps, goal, kind, ("C17",), dict({"key": f"C17/invert_pl_function/{name}"}, **(meta or {}))))
    ob("two-paths(crossings/fallback)-no-raise", BoolVal(len(live) == 2 and len(outs) == 2), [], "post", {"paths": len(outs)})
    if not state:
        ob("crossing-loop-recognised", BoolVal(False), [], "post", {"engine_error": "loop handler not reached"})
        return obs
    k, z, la, j, K = state["k"], toR(state["z"]), toR(state["la"]), toI(state["j"]), state["K"]
    hb = state["body_path"].pc
    xj, xj1, yj, yj1 = X[j], X[j + 1], Y[j], Y[j + 1]
    ob("crossing/segment-index-in-range", And(0 <= j, j + 1 < N), hb)
    # stated without fixing the tie convention of the detection: the segment's end values lie on different sides of (or on) the target
    ob("crossing/segment-crosses-or-touches-the-target", And((yj - t) * (yj1 - t) <= 0, yj1 != yj), hb)
    ob("crossing/no-division-by-zero", yj1 != yj, hb)
    ob("crossing/weight-in-[0,1]", And(0 <= la, la <= 1), hb)
    ob("crossing/solution-inside-the-segment", And(xj <= z, z <= xj1), hb)
    ob("crossing/interpolant-equals-target", yj * (xj1 - z) + yj1 * (z - xj) == t * (xj1 - xj), hb)
    # strictly increasing: two generic crossings k < k'
    from z3 import substitute
    k2 = Int("k_cross2")
    z2 = substitute(z, (k, k2))
    hy2 = hb + [substitute(h, (k, k2)) for h in hb if k.get_id() in {c.get_id() for c in _consts(h)}] + [k < k2, k2 < K]
    # split so that the final query is linear: (hint) every solution lies strictly below the end of its segment; then, with the two
    # solutions abstracted,  z < x[j+1] <= x[j'] <= z'  from the ascending segment indices and the ascending x
    ob("crossing/solution-strictly-below-the-segment-end", z < xj1, hb, "hint")
    j2 = substitute(j, (k, k2))
    zz, zz2 = Real("z!abs"), Real("z2!abs")
    lin = [h for h in hy2 if "*" not in h.sexpr() and "/" not in h.sexpr()]
    ob("solutions-strictly-increasing", zz < zz2, lin + [zz < X[j + 1], X[j2] <= zz2], "post", {"abstracted": True, "idx": [str(j), str(j2), str(j + 1), str(k), str(k2)]})
    # ---- lemma L17 (discrete intermediate value theorem) for the code's own crossing mask, by induction over the end index n.
    # cr(j) is the expression the real code hands to np.nonzero (row 0 = the one target), not a transcription of it.
    nz = getattr(state["s_idx"], "nonzero_of", None)
    ivt = None
    if nz is None:
        ob("L17/crossing-mask-found", BoolVal(False), [], "lemma", {"engine_error": "np.nonzero argument not found"})
    else:
        cmask, _si, rho_nz, _K = nz
        cr = lambda q: toB(cmask.elem(0, q))
        ob("L17/mask-has-one-entry-per-segment", toI(cmask.axes[1].size) == N - 1, [N >= 1], "lemma")
        a_, n_, jw = Int("a!ivt"), Int("n!ivt"), Int("jw!ivt")
        rng = [0 <= a_, a_ <= n_, n_ + 1 < N]
        # completeness of the detection on one segment (quantifier-free: a model of the negation is a real refutation)
        ob("L17/segment-rising-through-or-from-the-target-is-detected", cr(n_), [0 <= n_, n_ + 1 < N, Y[n_] <= t, Y[n_ + 1] > t], "lemma")
        ob("L17/segment-falling-through-or-from-the-target-is-detected", cr(n_), [0 <= n_, n_ + 1 < N, Y[n_] >= t, Y[n_ + 1] < t], "lemma")
        # Q_up(n) := y_a <= t < y_n  =>  exists j in [a, n): cr(j).   base n = a: antecedent false.   step with explicit witnesses.
        ob("L17/up/base: no end point equal to the start", Not(And(Y[a_] <= t, Y[a_] > t)), [], "lemma")
        wit = If(Y[n_] <= t, n_, jw)
        ob("L17/up/step: a crossing in [a, n] whenever y_a <= t < y_{n+1}", And(a_ <= wit, wit < n_ + 1, cr(wit)),
           rng + [Y[a_] <= t, Y[n_ + 1] > t, Implies(Y[n_] > t, And(a_ <= jw, jw < n_, cr(jw)))], "lemma")
        ob("L17/down/base: no end point equal to the start", Not(And(Y[a_] >= t, Y[a_] < t)), [], "lemma")
        wit = If(Y[n_] >= t, n_, jw)
        ob("L17/down/step: a crossing in [a, n] whenever y_a >= t > y_{n+1}", And(a_ <= wit, wit < n_ + 1, cr(wit)),
           rng + [Y[a_] >= t, Y[n_ + 1] < t, Implies(Y[n_] < t, And(a_ <= jw, jw < n_, cr(jw)))], "lemma")
        ivt = (cr, rho_nz)
    for o in live:
        r, hy = o.value, o.path.pc
        okb = isinstance(r, T)
        ob("scalar-target-gives-a-bare-array" + ("(fallback)" if getattr(r, "ndim", 0) != 1 or not same_size(r.axes[0].size, K) else "(crossings)"), BoolVal(bool(okb)), [], "shape")
        if isinstance(r, T) and r.ndim >= 1 and r.axes[0].concrete() and r.axes[0].size == 1:
            # fallback path: K == 0 and the point is x[argmin |y - t|]
            ob("fallback/only-when-there-is-no-crossing", K == 0, hy)
            v = toR(r.elem(*([0] * r.ndim)))
            m = Int("m!wit")
            w = Int("w!all")
            # the np.argmin contract (in hy) gives a minimiser; state the property with it as witness
            am = [e_ for e_ in o.env.values() if isinstance(e_, T) and hasattr(e_, "argmin_of")]
            if am:
                mm = am[0].argmin_of[1]
                dist = lambda q: If(Y[q] - t >= 0, Y[q] - t, t - Y[q])
                ob("fallback/returns-the-sample-point-closest-to-the-target", And(0 <= mm, mm < N, v == X[mm], Implies(And(0 <= w, w < N), dist(mm) <= dist(w))), hy)
                ob("fallback/a-sample-on-the-target-makes-the-returned-point-an-exact-solution", Y[mm] == t, hy + [0 <= w, w < N, Y[w] == t])
                if ivt is not None:
                    # conclusion of L17 (induction principle applied by the generator), instantiated at two generic samples p, q with
                    # skolem witnesses: with no crossing detected the samples cannot lie strictly on both sides of the target
                    cr, rho_nz = ivt
                    p_, q_, j1, j2 = Int("p!side"), Int("q!side"), Int("j1!ivt"), Int("j2!ivt")
                    l17 = [Implies(And(p_ <= q_, Y[p_] <= t, Y[q_] > t), And(p_ <= j1, j1 < q_, cr(j1))),
                           Implies(And(q_ <= p_, Y[q_] >= t, Y[p_] < t), And(q_ <= j2, j2 < p_, cr(j2)))]
                    ob("fallback/only-when-the-samples-stay-on-one-side-of-the-target", Not(And(Y[p_] < t, Y[q_] > t)),
                       hy + l17 + [0 <= p_, p_ < N, 0 <= q_, q_ < N], "post", {"idx": [str(j1), str(j2), str(rho_nz(j1)), str(rho_nz(j2))]})
            else:
                ob("fallback/argmin-witness", BoolVal(False), [], "post", {"engine_error": "argmin not found"})
        elif isinstance(r, T) and r.ndim == 1:
            ob("crossings/one-solution-per-crossing", toI(r.axes[0].size) == K, hy)
            ob("crossings/path-only-when-there-is-a-crossing", K >= 1, hy)
    for so in ex.obligs:
        so.id = f"C17/invert_pl_function/safety:{so.id}#{len(obs)}"
        so.props = ("C17",)
        obs.append(so)
    return obs


def _consts(f):
    from z3 import is_app, is_const
    seen, out = set(), []

    def walk(e):
        if e.get_id() in seen:
            return
        seen.add(e.get_id())
        if is_const(e) and e.decl().arity() == 0:
            out.append(e)
        for c in e.children():
            walk(c)
        if hasattr(e, "body") and callable(getattr(e, "body", None)):
            try:
                walk(e.body())
            except Exception:
                pass
    walk(f)
    return out


def build_threshold_at_metric():
    obs = []
    for mode in ("none", "int", "array"):
        for form in ("name", "callable"):
            calls, mcalls = [], []

            def c_inv(ex, path, x=None, y=None, t=None):
                calls.append({"x": x, "y": y, "t": t})
                return [T((Axis("sol", 1),), lambda k: Real("sol"), prov="fresh")]

            def metric_fn(ex, path, o, pts):
                mcalls.append((o, pts))
                n = pts.axes[0].size
                return T((Axis("m", n),), lambda k: P.UF("metric_at", __import__("z3").RealSort(), __import__("z3").RealSort())(toR(pts.elem(k))), prov="fresh")
            contracts = {("utils", "invert_pl_function"): c_inv}
            if form == "name":
                contracts[("Scores", "fnr")] = lambda ex, path, o, pts: metric_fn(ex, path, o, pts)
            ex = new_exec(contracts=contracts)
            path = Path()
            me = mk_scores(ex, path, "pos", "pos", min_pos=1 if mode == "int" else 0, min_neg=1 if mode == "int" else 0)
            tgt = Real("target")
            kpts = Int("k_points")
            upts = P.mk_array(ex, path, "user_points", None, prov="param:points")
            points = {"none": None, "int": kpts, "array": upts}[mode]
            metric = "fnr" if form == "name" else ("pyfunc", metric_fn)
            tag = f"[points={mode},metric-by-{form}]"
            outs = run_method(ex, "Scores", "threshold_at_metric", me, [tgt, metric, points], {}, path=path)
            live = [o for o in outs if not o.raised]
            err = [o for o in outs if o.raised]
            npos, nneg = toI(me.attrs["pos"].axes[0].size), toI(me.attrs["neg"].axes[0].size)

            def ob(name, goal, hyps, kind="post", meta=None):
                obs.append(Oblig(f"C17/threshold_at_metric/{name}{tag}", hyps, goal, kind, ("C17",), dict({"key": f"C17/threshold_at_metric/{name}"}, **(meta or {}))))
            ob("returns-the-inversion's-result-on-the-normal-paths", BoolVal(len(live) >= 1 and len(calls) == len(live) and all(isinstance(o.value, list) for o in live)), [], "post", {"paths": len(outs), "calls": len(calls)})
            for ci, (c, o) in enumerate(zip(calls, live)):
                hy = o.path.pc
                xs, ys = c["x"], c["y"]
                k = ex.new_int("k")
                ob(f"target-passed-on/call{ci}", BoolVal(c["t"] is tgt), [], "structural")
                ob(f"y-is-the-metric-of-self-at-the-points/call{ci}", BoolVal(bool(mcalls) and getattr(mcalls[ci][0], "id", None) == me.id and mcalls[ci][1] is xs and isinstance(ys, T)), [], "structural")
                if mode == "none":
                    src = getattr(xs, "sorted_of", None)
                    parts = getattr(src, "parts", None) or []
                    ob(f"points-are-all-scores-sorted/call{ci}", BoolVal(xs.facts.get("sorted") is True and len(parts) == 2 and {id(parts[0].sym[0]), id(parts[1].sym[0])} == {id(me.attrs["pos"].sym[0]), id(me.attrs["neg"].sym[0])}
                                                                         if all(getattr(p_, "sym", None) for p_ in parts) and len(parts) == 2 else False), [], "structural")
                    ob(f"normal-path-only-with-at-least-two-scores/call{ci}", npos + nneg >= 2, hy)
                elif mode == "int":
                    ls = xs.facts.get("linspace")
                    ob(f"points-are-a-linspace/call{ci}", BoolVal(ls is not None), [], "structural")
                    if ls is not None:
                        a_, b_, n_, endpoint = ls
                        lo_c = []
                        P_, N_ = me.attrs["pos"], me.attrs["neg"]
                        mn = If(npos > 0, If(nneg > 0, If(toR(P_.elem(0)) <= toR(N_.elem(0)), toR(P_.elem(0)), toR(N_.elem(0))), toR(P_.elem(0))), toR(N_.elem(0)))
                        mx = If(npos > 0, If(nneg > 0, If(toR(P_.elem(npos - 1)) >= toR(N_.elem(nneg - 1)), toR(P_.elem(npos - 1)), toR(N_.elem(nneg - 1))), toR(P_.elem(npos - 1))), toR(N_.elem(nneg - 1)))
                        ob(f"linspace-from-min-score-to-max-score-with-k-points/call{ci}", And(a_ == mn, b_ == mx, toI(n_) == kpts, BoolVal(endpoint is True), a_ < b_), hy + [npos + nneg >= 1])
                else:
                    ob(f"points-are-the-user's-array/call{ci}", BoolVal(xs is upts), [], "structural")
            for ei, o in enumerate(err):
                ob(f"raises-ValueError/path{ei}", BoolVal("ValueError" in str(o.value.exc)), [], "post")
                if mode == "none":
                    ob(f"raises-only-with-fewer-than-two-scores/path{ei}", npos + nneg < 2, o.path.pc)
            if mode == "array":
                ob("user-points-never-raise", BoolVal(not err), [], "post")
    # name resolution on the dynamic class
    ex = new_exec()
    try:
        owner, _ = ex.find("GroupScores", "group_fnr")
        obs.append(Oblig("C17/threshold_at_metric/metric-names-resolve-on-type(self)", [], BoolVal(owner == "GroupScores"), "structural", ("C17",)))
    except KeyError:
        obs.append(Oblig("C17/threshold_at_metric/metric-names-resolve-on-type(self)", [], BoolVal(False), "structural", ("C17",)))
    return obs


# ----------------------------------------------------------------------------------------------------------------
def oracle(case):
    from vf.framework import real_repo
    sa = real_repo()
    from score_analysis.utils import invert_pl_function
    cl = case["clause"]
    info = f"[{case}]"
    if cl == "invert":
        x, y = np.array(case["x"], dtype=float), np.array(case["y"], dtype=float)
        ts = case["t"]
        xin = np.array(case["x"], dtype=np.dtype(case["x_dtype"])) if case.get("x_dtype") else x
        x = xin.astype(float)          # the values actually stored in the narrow dtype
        with np.errstate(all="ignore"):
            res = invert_pl_function(xin, y, np.array(ts, dtype=float))
        if not isinstance(res, list) or len(res) != len(ts):
            return f"vector target: {type(res).__name__} of length {len(res) if hasattr(res, '__len__') else '?'} {info}"
        for tj, sol in zip(ts, res):
            with np.errstate(all="ignore"):
                one = invert_pl_function(xin, y, float(tj))
            if not isinstance(one, np.ndarray) or not np.array_equal(np.ravel(one), np.ravel(sol)):
                return f"scalar target {tj}: {one!r} differs from the vector call's entry {sol!r} {info}"
            sol = np.ravel(np.asarray(sol, dtype=float))
            crosses = any((y[i] <= tj < y[i + 1]) or (y[i] >= tj > y[i + 1]) for i in range(len(y) - 1))
            if crosses:
                if np.any(np.diff(sol) <= 0):
                    return f"solutions for t={tj} not strictly increasing: {sol.tolist()} {info}"
                if np.any(sol < x[0]) or np.any(sol > x[-1]):
                    return f"solution outside the sampled range for t={tj}: {sol.tolist()} {info}"
                if not np.allclose(np.interp(sol, x, y), tj, rtol=0, atol=1e-9):
                    return f"interpolant at {sol.tolist()} is {np.interp(sol, x, y).tolist()}, not t={tj} {info}"
                nseg = sum(1 for i in range(len(y) - 1) if (y[i] <= tj < y[i + 1]) or (y[i] >= tj > y[i + 1]))
                if len(sol) != nseg:
                    return f"{len(sol)} solutions for t={tj}, but {nseg} segments cross or touch it {info}"
            else:
                if len(sol) != 1 or sol[0] not in x or abs(y[list(x).index(sol[0])] - tj) > np.min(np.abs(y - tj)) + 1e-12:
                    return f"no crossing for t={tj}: returned {sol.tolist()}, expected the single sample point closest to the target {info}"
        return None
    if cl == "metric":
        dt = int if case.get("int_dtype") else float
        pos, neg = np.array(case["pos"], dtype=dt), np.array(case["neg"], dtype=dt)
        s = sa.Scores(pos, neg, nb_easy_pos=case["ep"], nb_easy_neg=case["en"], score_class=case["sc"], equal_class=case["ec"])
        tgt = np.array(case["t"])
        allv = np.sort(np.concatenate([pos, neg])).astype(float)
        # metrics by name and callables whose values leave [0,1]; targets inside, on the boundary of and outside the range of values
        for metric, tgt in (("fnr", np.array(case["t"] + [-0.2, 1.1])), (lambda o, th: o.topr(th) - 0.5 * o.fpr(th), np.array(case["t"] + [-0.3, -0.5, 1.4])),
                            (lambda o, th: 100.0 * o.fnr(th), np.array([0.0, 30.0, 50.0, 100.0, 130.0])), (lambda o, th: -o.tnr(th), np.array([-1.0, -0.5, -0.25, 0.0, 0.5]))):
            f = (lambda th: getattr(sa.Scores, metric)(s, th)) if isinstance(metric, str) else (lambda th: metric(s, th))
            with np.errstate(all="ignore"):
                for pts, xs in ((None, allv), (5, np.linspace(allv[0], allv[-1], 5)), (np.array([allv[0] - 1, allv[0], allv[-1] + 0.5]), np.array([allv[0] - 1, allv[0], allv[-1] + 0.5]))):
                    got = s.threshold_at_metric(tgt, metric, pts)
                    exp = invert_pl_function(xs, f(xs), tgt)
                    if len(got) != len(exp) or any(not np.array_equal(np.ravel(a), np.ravel(b)) for a, b in zip(got, exp)):
                        return f"threshold_at_metric(points={'None' if pts is None else pts if isinstance(pts, int) else 'array'}) differs from the inversion over the specified points {info}"
        # metric names are resolved on the object's own class
        class Sub(sa.Scores):
            def fnr(self, threshold):
                return 1.0 - sa.Scores.fnr(self, threshold)

            def only_here(self, threshold):
                return 0.5 * sa.Scores.tpr(self, threshold)
        d = Sub(pos, neg, nb_easy_pos=case["ep"], nb_easy_neg=case["en"], score_class=case["sc"], equal_class=case["ec"])
        with np.errstate(all="ignore"):
            for nm in ("fnr", "only_here"):
                try:
                    got = d.threshold_at_metric(np.array([0.25, 0.5]), nm)
                except Exception as e:        # noqa: BLE001
                    return f"threshold_at_metric by name {nm!r} on a subclass raised {type(e).__name__}: {e} {info}"
                exp = invert_pl_function(allv, getattr(Sub, nm)(d, allv), np.array([0.25, 0.5]))
                if len(got) != len(exp) or any(not np.array_equal(np.ravel(a), np.ravel(b)) for a, b in zip(got, exp)):
                    return f"threshold_at_metric by name {nm!r} is not resolved on the object's own class {info}"
        return None
    raise ValueError(cl)


def replay(case):
    return oracle(case)


def eval_items(items):
    counts, viols = {}, []
    for case in items:
        try:
            res = oracle(case)
        except Exception as e:
            res = f"raised {type(e).__name__}: {e} for {case}"
        c = counts.setdefault(case["clause"], [0, 0])
        c[0] += 1
        c[1] += 1
        if res:
            viols.append((case["clause"], f"C17/bounded/{case['clause']}:{' '.join(res.split(' ')[:3])[:40]}", res, B.jsonable(case)))
    return counts, viols, []


def bounded(chk):
    import itertools
    from vf.framework import run_bounded
    items = []
    yvals = [0.0, 0.5, 1.0]
    for n in (1, 2, 3, 4, 5):
        for ys in itertools.product(yvals, repeat=n):
            for xs in ([float(k) for k in range(n)],):
                items.append({"clause": "invert", "x": xs, "y": list(ys), "t": [-0.5, 0.0, 0.25, 0.5, 0.75, 1.0, 2.0]})
    # duplicates in x with equal y
    for ys in itertools.product(yvals, repeat=3):
        items.append({"clause": "invert", "x": [0.0, 1.0, 1.0, 2.0], "y": [ys[0], ys[1], ys[1], ys[2]], "t": [0.0, 0.25, 0.5, 1.0]})
    rng = np.random.RandomState(chk.seed)
    for rep in range(40 if chk.tier == "quick" else 400):
        n = rng.randint(2, 9)
        items.append({"clause": "invert", "x": np.sort(rng.normal(size=n)).tolist(), "y": rng.randint(0, 5, size=n).astype(float).tolist(), "t": [0.0, 0.5, 1.0, 2.5, 4.0, 7.0]})
    # narrow integer / float32 sample points with wide gaps (differences must not be formed in the points' dtype)
    for dtn, xs in (("int8", [-100, 100]), ("int8", [-120, -5, 90, 127]), ("int16", [-30000, 0, 30000]), ("float32", [-3e38, 0.0, 3e38])):
        ys = [float(k % 2) for k in range(len(xs))]
        items.append({"clause": "invert", "x": xs, "y": ys, "t": [0.25, 0.5, 0.75], "x_dtype": dtn})
    for pos, neg in B.order_types(4, min_pos=1, min_neg=1):
        if len(set(pos + neg)) < 2:
            continue
        for sc, ec in (("pos", "pos"), ("neg", "neg")):
            items.append({"clause": "metric", "pos": pos, "neg": neg, "ep": 0, "en": 1, "sc": sc, "ec": ec, "t": [0.0, 0.3, 0.5, 1.0]})
            if all(float(v).is_integer() for v in pos + neg):
                items.append({"clause": "metric", "pos": [3 * v for v in pos], "neg": [3 * v for v in neg], "ep": 0, "en": 1, "sc": sc, "ec": ec, "t": [0.0, 0.3, 0.5, 1.0], "int_dtype": True})
    chk.bounded["bound"] = "all y in {0,0.5,1}^n for n<=5 nodes on x=0..n-1 (and with a duplicated node), 7 targets inside/outside/on the values; 40 random integer-valued curves; threshold_at_metric on all order types up to 4 scores with points None / 5 / user array, metric by name and callable, float and integer score dtype"
    chk.bounded["rule"] = "enumerated + seeded"
    run_bounded(chk, items, eval_items)
    chk.samples.append({"bounded-case": items[30]})


def run(chk):
    prove(chk, build, replay=replay)
    bounded(chk)
    chk.extra["assumptions"] = ["proof is for one scalar target (vector targets are processed row by row by the same code: checked at run time); np.nonzero / np.argmin are assumed contracts; the discrete intermediate-value lemma (a target inside [min y, max y] without crossing is attained at a node) is not proved"]
