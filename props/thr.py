"""Shared machinery for the threshold-setting properties C02 / C03 (also used by C08, C09, C15).

Contract of the six public functions  threshold_at_{tpr,fnr,tnr,fpr,topr,tonr}(r, method)  -- written from the property
statements in *count space*:  K = r * N_all  where N_all is the relevant population (easy samples included), the metric's
count at a threshold is given by the documented decision rule (spec function predpos over cnt_lt / cnt_le), never by the
code's own cm().
"""
from z3 import And, BoolVal, If, Implies, Int, IntVal, Not, Or, Real, RealVal, ToInt, ToReal

from vf import bounded as B
from vf import prims as P
from vf.common import mk_scores, new_exec, predpos, run_method
from vf.engine import Oblig, Path, T, toI, toR

METRICS = ["tpr", "fnr", "tnr", "fpr", "topr", "tonr"]
ALIASES = {"tar": "tpr", "frr": "fnr", "trr": "tnr", "far": "fpr", "acceptance_rate": "topr", "rejection_rate": "tonr"}
METHODS = ["linear", "lower", "higher"]


class ThrRun:
    """one symbolic execution of threshold_at_<metric>(r, method) on a symbolic Scores object"""

    def __init__(self, metric, sc, ec, method, sizes=None, strict=False, me=None, ex=None, path=None, r=None, name="", easy_case=None):
        self.metric, self.sc, self.ec, self.method = metric, sc, ec, method
        npos, nneg = sizes[:2] if sizes else (None, None)
        easy = tuple(sizes[2:4]) if sizes and len(sizes) >= 4 else True
        self.ex = ex or new_exec(ground=bool(sizes))
        self.path = path if path is not None else Path()
        if easy_case is not None and not (sizes and len(sizes) >= 4) and me is None:
            ep_, en_ = Int(name + "nb_easy_pos"), Int(name + "nb_easy_neg")
            self.path.add(And(ep_ >= 0, en_ >= 0))
            rel = {"tpr": "p", "fnr": "p", "tnr": "n", "fpr": "n"}.get(metric, "pn")
            if easy_case == "none":
                easy = (0 if "p" in rel else ep_, 0 if "n" in rel else en_)
            else:
                easy = (ep_, en_)
                self.path.add((ep_ if "p" in rel else 0) + (en_ if "n" in rel else 0) > 0)
        self.me = me or mk_scores(self.ex, self.path, sc, ec, npos, nneg, easy=easy, strict=strict, name=name)
        self.r = r if r is not None else Real(name + "r")
        me = self.me
        self.npos, self.nneg = toI(me.attrs["pos"].axes[0].size), toI(me.attrs["neg"].axes[0].size)
        self.ep, self.en = toI(me.attrs["nb_easy_pos"]), toI(me.attrs["nb_easy_neg"])
        # pre-condition: the relevant class is non-empty
        if metric in ("tpr", "fnr"):
            self.path.add(self.npos >= 1)
        elif metric in ("tnr", "fpr"):
            self.path.add(self.nneg >= 1)
        else:
            self.path.add(self.npos + self.nneg >= 1)
        n0 = len(self.ex.obligs)
        self.outs = run_method(self.ex, "Scores", "threshold_at_" + metric, me, [self.r], {"method": method}, path=self.path)
        self.side = self.ex.obligs[n0:]
        self.live = [o for o in self.outs if not o.raised]
        self.ok = len(self.live) == 1 and len(self.outs) == 1
        if self.ok:
            self.th = self.live[0].value
            self.path = self.live[0].path
            self.scalar_result = not isinstance(self.th, T)
            if isinstance(self.th, T):
                self.th = self.th.elem() if self.th.ndim == 0 else None
        # the array the function thresholds on (for the cnt facts): pos, neg, or the sorted concatenation
        self.P, self.N = me.attrs["pos"], me.attrs["neg"]

    # ---- spec side -------------------------------------------------------------------------------------------
    def add_cnt_facts(self, path, th):
        for a in (self.P, self.N):
            if a.sym is not None:
                path.add(P.cnt_char(a.sym[0], a.sym[1], th))

    def pp(self, arr, th, variant=None):
        """predicted-positive count among arr at threshold th by the documented rule; variant 'below'/'above' gives the
        one-sided limits just below / just above th (independent of equal_class)"""
        cnt = arr.facts["cnt"]
        n = toI(arr.axes[0].size)
        if variant is None:
            return predpos(self.sc, self.ec, arr, th)
        if self.sc == "pos":          # predicted positive: score >= t' for t' just below th: #(s >= th) ; just above: #(s > th)
            return n - cnt(th, True) if variant == "below" else n - cnt(th, False)
        return cnt(th, True) if variant == "below" else cnt(th, False)   # score <= t': just below th: #(s < th); above: #(s <= th)

    def count(self, th, variant=None):
        """numerator of the metric at threshold th"""
        m = self.metric
        pp_p = self.pp(self.P, th, variant)
        pp_n = self.pp(self.N, th, variant)
        return {"tpr": pp_p + self.ep, "fnr": self.npos - pp_p, "tnr": self.nneg - pp_n + self.en, "fpr": pp_n,
                "topr": pp_p + pp_n + self.ep, "tonr": self.npos + self.nneg - pp_p - pp_n + self.en}[m]

    @property
    def n_rel(self):
        return {"tpr": self.npos, "fnr": self.npos, "tnr": self.nneg, "fpr": self.nneg,
                "topr": self.npos + self.nneg, "tonr": self.npos + self.nneg}[self.metric]

    @property
    def n_all(self):
        return {"tpr": self.npos + self.ep, "fnr": self.npos + self.ep, "tnr": self.nneg + self.en, "fpr": self.nneg + self.en,
                "topr": self.npos + self.nneg + self.ep + self.en, "tonr": self.npos + self.nneg + self.ep + self.en}[self.metric]

    @property
    def lo_c(self):
        return {"tpr": self.ep, "fnr": IntVal(0), "tnr": self.en, "fpr": IntVal(0), "topr": self.ep, "tonr": self.en}[self.metric]

    @property
    def hi_c(self):
        return self.lo_c + self.n_rel

    def clipK(self, r=None):
        r = self.r if r is None else r
        K = r * ToReal(self.n_all)
        lo, hi = ToReal(self.lo_c), ToReal(self.hi_c)
        return If(K < lo, lo, If(K > hi, hi, K))

    def case(self, m, extra=None):
        """concrete replay case from a ground model"""
        from vf.proof import fval
        pos = [fval(m, a) for a in (self.P.items or [])]
        neg = [fval(m, a) for a in (self.N.items or [])]
        c = {"metric": self.metric, "sc": self.sc, "ec": self.ec, "method": self.method,
             "pos": [float(v) for v in pos], "neg": [float(v) for v in neg],
             "ep": int(fval(m, toI(self.ep))), "en": int(fval(m, toI(self.en))), "r": float(fval(m, self.r)),
             "r_exact": str(fval(m, self.r))}
        if extra:
            c.update(extra)
        return c


def metric_dir(metric, sc):
    """+1 if the metric is non-decreasing in the threshold, -1 otherwise (from the decision rule)"""
    inc = metric in ("fnr", "tnr", "tonr")
    if sc == "neg":
        inc = not inc
    return 1 if inc else -1


# ----------------------------------------------------------------------------------------------------------------
# executable renderings (bounded layer + replay); exact rational arithmetic for the expectations

def real_scores(case):
    from vf.framework import real_repo
    sa = real_repo()
    import numpy as np
    dt = int if case.get("int") else float
    return sa.Scores(np.asarray(case["pos"], dtype=dt), np.asarray(case["neg"], dtype=dt), nb_easy_pos=case["ep"], nb_easy_neg=case["en"],
                     score_class=case["sc"], equal_class=case["ec"])


def counts_at(case, th, variant=None):
    """metric numerator at th by brute force from the decision rule (variant: one-sided limits)"""
    import numpy as np
    pos, neg, sc, ec = case["pos"], case["neg"], case["sc"], case["ec"]

    def pp(arr):
        if variant is None:
            return sum(1 for s in arr if B.rule(sc, ec, s, th))
        if sc == "pos":
            return sum(1 for s in arr if (s >= th if variant == "below" else s > th))
        return sum(1 for s in arr if (s < th if variant == "below" else s <= th))
    ppp, ppn = pp(pos), pp(neg)
    ep, en = case["ep"], case["en"]
    return {"tpr": ppp + ep, "fnr": len(pos) - ppp, "tnr": len(neg) - ppn + en, "fpr": ppn,
            "topr": ppp + ppn + ep, "tonr": len(pos) + len(neg) - ppp - ppn + en}[case["metric"]]


def pop_info(case):
    pos, neg, ep, en, m = case["pos"], case["neg"], case["ep"], case["en"], case["metric"]
    n_rel = {"tpr": len(pos), "fnr": len(pos), "tnr": len(neg), "fpr": len(neg), "topr": len(pos) + len(neg), "tonr": len(pos) + len(neg)}[m]
    e_all = {"tpr": ep, "fnr": ep, "tnr": en, "fpr": en, "topr": ep + en, "tonr": ep + en}[m]
    lo = {"tpr": ep, "fnr": 0, "tnr": en, "fpr": 0, "topr": ep, "tonr": en}[m]
    return n_rel, n_rel + e_all, lo, lo + n_rel
