#!/bin/bash
# tools/mutest.sh <PROPERTY-ID> <patch-file> [tier]   -- run one check against a scratch copy of /repo with a patch applied
set -e
PID=$1; PATCH=$(readlink -f "$2"); TIER=${3:-quick}
D=$(mktemp -d /tmp/mutest.XXXXXX)
trap 'rm -rf "$D"' EXIT
cp -r /repo/score_analysis "$D/score_analysis"
( cd "$D" && patch -p1 -s < "$PATCH" ) || { echo "PATCH-FAILED $PATCH"; exit 9; }
mkdir -p "$D/ev"
cd "$(dirname "$0")/.."
set +e
VERIF_REPO="$D" VERIF_EVIDENCE_DIR="$D/ev" VERIF_REPLAY_DIR="$D/ev" ./check "$PID" --tier "$TIER" 2>&1 | grep -v '^  """' | grep -v SyntaxWarning | tail -${LINES_OUT:-8}
echo "exit=${PIPESTATUS[0]}"
