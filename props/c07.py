"""C07 -- AUC equals the Mann-Whitney statistic; partial AUC is the exact step-ROC area.

Proved (window contract of Scores.auc, all axis pairs): the body is executed with the rate methods replaced by their contract
(an opaque array over the sorted evaluation points: values in [0,1], monotone in the direction given by the decision rule -- the
monotonicity itself is C15's obligation): the evaluation points are the sorted ulp-neighbours of all scores; all index accesses are
in bounds and both searchsorted calls get ascending arrays (safety obligations); and, stated on the two arrays that reach the
integration primitive (np.trapezoid / np.trapz) -- independent of local names and helper functions --: with the curve taken in the
direction of increasing x and the specification's cuts L = #{x < lower}, R = #{x <= upper}, in the unclamped case the nodes are
lower, X[L..R), upper (soundness and completeness of the window), the values are Y[L], Y[L..R), Y[R-1], the nodes ascend; the
result is |trapz| >= 0.
"At most upper-lower": for clamped windows (lower above / upper below every curve point) the body yields three nodes with one
constant value c in [0,1], so the rule gives c*(upper-lower) (obligations on the executed body + the unfolded definition); for
unclamped windows lemma L9 by induction over the node index -- with np.trapezoid's definitional contract
(ghost partial sums S(0) = 0, S(k+1) = S(k) + (x[k+1]-x[k])(y[k]+y[k+1])/2, result S(n-1); assumed) the invariant
0 <= S(k) <= x[k]-x[0] has base and step as obligations of every run, resting on two node facts proved from the executed body
(every node value lies in [0,1], consecutive nodes ascend); at the last node, with the proved end nodes lower / upper, the result
is <= upper-lower.
Bounded (exhaustive weak orderings): equality with the Mann-Whitney statistic (ties 1/2, easy samples beyond), exact step area,
additivity over adjacent intervals, the three complement identities.
"""
import itertools
from fractions import Fraction

import numpy as np
from z3 import And, Array, BoolVal, ForAll, If, Implies, Int, IntSort, MultiPattern, Not, Or, Real, RealSort

from vf import bounded as B
from vf import prims as P
from vf.common import mk_scores, new_exec, run_method
from vf.engine import Axis, Oblig, Path, T, same_size, toI, toR
from vf.proof import prove
from props.thr import metric_dir

LEVEL = "other"
RATES = ["tpr", "fnr", "tnr", "fpr"]


def build(sizes=None, only=None, part=None):
    obs = []
    if sizes is not None:
        return obs
    for sc in ("pos", "neg"):
        if part is not None and part != sc:
            continue
        for x_axis, y_axis in itertools.product(RATES, RATES):
            if x_axis[:2] == y_axis[:2] or {x_axis, y_axis} in ({"tpr", "fnr"}, {"tnr", "fpr"}):
                continue
            try:
                obs += build_one(sc, "pos", x_axis, y_axis)
            except Exception as e:
                import os
                if os.environ.get("VERIF_DEBUG"):
                    import traceback
                    traceback.print_exc()
                obs.append(Oblig(f"C07/auc/executes[{sc},x={x_axis},y={y_axis}]", [], BoolVal(False), "post", ("C07",), {"engine_error": f"{type(e).__name__}: {e}"}))
    return obs


PARTS = ["pos", "neg"]


def build_one(sc, ec, x_axis, y_axis):
    obs = []
    tag = f"[{sc},x={x_axis},y={y_axis}]"
    state = {"points": []}

    def rate_contract(name):
        def c(ex, path, self_, pts):
            # contract of a rate method on an ascending threshold array: opaque values in [0,1], monotone by the decision rule
            state["points"].append((name, pts))
            n = toI(pts.axes[0].size)
            R = Array(f"{name}_at_points!{next(ex.fresh)}", IntSort(), RealSort())
            i, j = Int("i!r"), Int("j!r")
            path.add(ForAll([i], Implies(And(0 <= i, i < n), And(0 <= R[i], R[i] <= 1)), patterns=[R[i]]))
            d = metric_dir(name, sc)
            path.add(ForAll([i, j], Implies(And(0 <= i, i <= j, j < n), (R[i] <= R[j]) if d > 0 else (R[i] >= R[j])), patterns=[MultiPattern(R[i], R[j])]))
            t = T((Axis(name, n),), lambda k, R=R: R[toI(k)], prov="fresh", sym=(R, n))
            t.facts["dir"] = d
            state.setdefault("rates", {})[name] = (R, n)
            return t
        return c

    def trapz_contract(ex_, path_, y, x, *a, **k):
        # the integration primitive: records the nodes it is handed (np.trapezoid and the deprecated np.trapz)
        # Definitional contract of the composite trapezoid rule (assumed, numpy's documented formula): the result is S(n-1) for the
        # ghost partial sums  S(0) = 0,  S(k+1) = S(k) + (x[k+1]-x[k]) * (y[k]+y[k+1]) / 2.  The recursion is kept in `state` and
        # only handed to the obligations of lemma L9 below; for every other obligation the result stays an opaque real.
        from z3 import Function
        S = Function(f"trapz_partial!{next(ex_.fresh)}", IntSort(), RealSort())
        state.setdefault("trapz", []).append((y, x, list(path_.pc)))
        state.setdefault("trapz_sum", []).append(S)
        return S(toI(x.axes[0].size) - 1)
    ex = new_exec(contracts={("Scores", r): rate_contract(r) for r in RATES}, extra_prims={"np.trapezoid": trapz_contract, "np.trapz": trapz_contract})
    path = Path()
    me = mk_scores(ex, path, sc, ec, min_pos=1, min_neg=1)
    lower, upper = Real("lower"), Real("upper")
    path.add(And(0 <= lower, lower <= upper, upper <= 1))
    outs = run_method(ex, "Scores", "auc", me, [lower, upper], {"x_axis": x_axis, "y_axis": y_axis}, path=path)
    live = [o for o in outs if not o.raised]

    def ob(name, goal, hyps, kind="post", meta=None):
        obs.append(Oblig(f"C07/auc/{name}{tag}", hyps, goal, kind, ("C07",), dict({"key": f"C07/auc/{name}"}, **(meta or {}))))
    ob("no-raising-path", BoolVal(len(live) == len(outs) and len(live) >= 1), [], "post", {"paths": len(outs)})
    # evaluation points: both rate calls receive the same sorted array of the ulp-neighbours of every score
    pts = state["points"]
    okp = len(pts) == 2 and pts[0][1] is pts[1][1] and pts[0][0] == x_axis and pts[1][0] == y_axis
    ob("points/both-axes-evaluated-on-the-same-points", BoolVal(bool(okp)), [], "structural")
    if okp:
        p_ = pts[0][1]
        src = getattr(p_, "sorted_of", None)
        flat = getattr(src, "flat_of", None) if src is not None else None
        ob("points/are-np.sort-of-a-flattened-(2,n)-array", BoolVal(p_.facts.get("sorted") is True and flat is not None and flat.ndim == 2 and flat.axes[0].size == 2), [], "structural")
        if flat is not None and flat.ndim == 2:
            k = ex.new_int("k")
            npos, nneg = toI(me.attrs["pos"].axes[0].size), toI(me.attrs["neg"].axes[0].size)
            Ap, An = me.attrs["pos"].sym[0], me.attrs["neg"].sym[0]
            from z3 import If
            score = If(k < npos, Ap[k], An[k - npos])
            hy = path.pc + [0 <= k, k < npos + nneg]
            ob("points/row0-is-the-lower-ulp-neighbour-of-each-score", toR(flat.elem(0, k)) == P.nxt_dn(score), hy)
            ob("points/row1-is-the-upper-ulp-neighbour-of-each-score", toR(flat.elem(1, k)) == P.nxt_up(score), hy)
            ob("points/cover-all-scores", toI(flat.axes[1].size) == npos + nneg, path.pc)
    for pi, o in enumerate(live):
        ob(f"result-is-nonnegative/path{pi}", toR(o.value) >= 0, o.path.pc)
    obs += window_obligations(ex, live, tag, lower, upper, state, x_axis, y_axis)
    for so in ex.obligs:
        so.id = f"C07/auc/safety:{so.id}#{len(obs)}{tag}"
        so.props = ("C07",)
        obs.append(so)
    return obs


def window_obligations(ex, live, tag, lower, upper, state, x_axis, y_axis):
    """The window is specified on what the integration primitive receives, whatever local names and helpers the code uses.
    With X, Y the curve in ascending x-order (the rate arrays, reversed iff x decreases along the evaluation points), the
    specification's cuts are L = #{x < lower} and R = #{x <= upper}.  In the unclamped case (L <= n-1, R >= 1) the integration nodes
    are  lower, X[L..R), upper  and the values  Y[L], Y[L..R), Y[R-1]."""
    from z3 import If
    obs = []
    tz = state.get("trapz", [])
    rates = state.get("rates", {})
    if len(tz) != len(live) or x_axis not in rates or y_axis not in rates:
        obs.append(Oblig(f"C07/auc/window/integration-call-recognised{tag}", [], BoolVal(False), "structural", ("C07",),
                         {"engine_error": f"{len(tz)} integration calls on {len(live)} paths"}))
        return obs
    (Rx, n), (Ry, _) = rates[x_axis], rates[y_axis]
    n = toI(n)
    rev = Rx[n - 1] < Rx[0]
    Xs = lambda k: If(rev, Rx[n - 1 - k], Rx[k])
    Ys = lambda k: If(rev, Ry[n - 1 - k], Ry[k])
    XA = Array(f"x_ascending!{next(ex.fresh)}", IntSort(), RealSort())        # named copy of X for the counting functions
    q = Int("q!xa")
    for pi, (yi, xi, pc) in enumerate(tz):
        ptag = f"/path{pi}"
        hy = list(pc) + [ForAll([q], XA[q] == Xs(q), patterns=[XA[q]]), P.cnt_char(XA, n, lower), P.cnt_char(XA, n, upper), P.sorted_formula(XA, n)]
        L, R = P.cnt_lt(XA, n, lower), P.cnt_le(XA, n, upper)
        unclamped = And(L <= n - 1, R >= 1)
        ni = toI(xi.axes[0].size)
        k = ex.new_int("k")

        def ob(name, goal, extra=(), kind="post"):
            obs.append(Oblig(f"C07/auc/window/{name}{ptag}{tag}", hy + list(extra), goal, kind, ("C07",), {"key": f"C07/auc/window/{name}", "idx": [str(k)]}))
        i0, j0 = ex.new_int("i"), ex.new_int("j")
        obs.append(Oblig(f"C07/auc/window/lemma: the curve taken in the direction of increasing x is ascending{ptag}{tag}", list(pc),
                         Implies(And(0 <= i0, i0 <= j0, j0 < n), Xs(i0) <= Xs(j0)), "lemma", ("C07",), {"key": "C07/auc/window/lemma-ascending", "idx": [str(i0), str(j0), str(n - 1 - i0), str(n - 1 - j0)]}))
        ob("x-and-y-nodes-have-equal-length", toI(yi.axes[0].size) == ni)
        ob("end-nodes-are-lower-and-upper", And(ni >= 2, toR(xi.elem(0)) == lower, toR(xi.elem(ni - 1)) == upper))
        ob("number-of-nodes-is-window-size+2", Implies(unclamped, ni == R - L + 2))
        ob("soundness+completeness: inner nodes are exactly the curve points with lower <= x <= upper, in order",
           Implies(And(unclamped, 0 <= k, k < R - L), And(toR(xi.elem(1 + k)) == Xs(L + k), lower <= Xs(L + k), Xs(L + k) <= upper)))
        ob("completeness: every curve point with lower <= x <= upper is an inner node", Implies(And(unclamped, 0 <= k, k < n, lower <= Xs(k), Xs(k) <= upper), And(L <= k, k < R)))
        ob("inner values are the curve values at the inner nodes", Implies(And(unclamped, 0 <= k, k < R - L), toR(yi.elem(1 + k)) == Ys(L + k)))
        ob("cut-values-are-the-curve-values-at-the-first-and-last-inner-node", Implies(And(unclamped, R - L >= 1), And(toR(yi.elem(0)) == Ys(L), toR(yi.elem(ni - 1)) == Ys(R - 1))))
        i, j = ex.new_int("i"), ex.new_int("j")
        ob("integration-nodes-ascending", Implies(And(unclamped, 0 <= i, i <= j, j < ni), toR(xi.elem(i)) <= toR(xi.elem(j))))
        # ---- lemma L9: 0 <= S(k) <= x[k] - x[0] along ascending nodes with values in [0,1], by induction over the node index;
        # hence  |trapz| <= upper - lower  ("at most upper-lower") in the unclamped case.  Base, step and the two node facts the step
        # rests on are obligations of every run; the step itself is a small quantifier-free non-linear query.
        S = state["trapz_sum"][pi]
        xk, xk1, yk, yk1, x0 = toR(xi.elem(k)), toR(xi.elem(k + 1)), toR(yi.elem(k)), toR(yi.elem(k + 1)), toR(xi.elem(0))
        rng = And(unclamped, 0 <= k, k + 1 < ni)
        ob("L9/node-values-lie-in-[0,1]", Implies(And(unclamped, 0 <= k, k < ni), And(0 <= yk, yk <= 1)))
        ob("L9/consecutive-nodes-ascend", Implies(rng, xk <= xk1))
        sdef0, sdefk = S(0) == 0, S(k + 1) == S(k) + (xk1 - xk) * (yk + yk1) / 2

        def lob(name, goal, hyps):
            obs.append(Oblig(f"C07/auc/window/L9/{name}{ptag}{tag}", hyps, goal, "lemma", ("C07",), {"key": f"C07/auc/window/L9/{name}"}))
        lob("base: S(0) = 0 lies in [0, x[0]-x[0]]", And(0 <= S(0), S(0) <= x0 - x0), [sdef0])
        lob("step: 0 <= S(k+1) <= x[k+1]-x[0]", And(0 <= S(k + 1), S(k + 1) <= xk1 - x0),
            [sdefk, 0 <= S(k), S(k) <= xk - x0, xk <= xk1, 0 <= yk, yk <= 1, 0 <= yk1, yk1 <= 1])
        # conclusion of the induction at the last node + the proved end-node fact => the clause of the statement
        last = ni - 1
        res = toR(live[pi].value)
        # clamped windows (lower above, or upper below, every curve point): three nodes with one constant value c, so the rule gives
        # c * (upper - lower) although the middle node lies outside [lower, upper]
        y0, y1, y2 = toR(yi.elem(0)), toR(yi.elem(1)), toR(yi.elem(2))
        x1, x2 = toR(xi.elem(1)), toR(xi.elem(2))
        ob("L9/clamped-window-has-three-nodes-with-one-value-in-[0,1]", Implies(Not(unclamped), And(ni == 3, y0 == y1, y1 == y2, 0 <= y0, y0 <= 1, x0 == lower, x2 == upper)))
        lob("clamped: result-is-at-most-upper-minus-lower", Implies(Not(unclamped), And(0 <= res, res <= upper - lower)),
            list(live[pi].path.pc) + [Implies(Not(unclamped), And(ni == 3, y0 == y1, y1 == y2, 0 <= y0, y0 <= 1, x0 == lower, x2 == upper)),
                                      S(0) == 0, S(1) == S(0) + (x1 - x0) * (y0 + y1) / 2, S(2) == S(1) + (x2 - x1) * (y1 + y2) / 2])
        lob("result-is-at-most-upper-minus-lower", Implies(unclamped, And(0 <= res, res <= upper - lower)),
            list(live[pi].path.pc) + [Implies(unclamped, And(0 <= S(last), S(last) <= toR(xi.elem(last)) - x0)), Implies(unclamped, And(ni >= 2, x0 == lower, toR(xi.elem(last)) == upper))])
    return obs


# ----------------------------------------------------------------------------------------------------------------
# bounded layer

def mann_whitney(pos, neg, ep, en, sc):
    """P(random positive ranked on the positive side of a random negative) + 1/2 P(tie); easy samples rank beyond all"""
    P_, N_ = len(pos) + ep, len(neg) + en
    wins = Fraction(0)
    for p in pos:
        for q in neg:
            better = p > q if sc == "pos" else p < q
            wins += 1 if better else (Fraction(1, 2) if p == q else 0)
    wins += ep * N_            # an easy positive beats every negative
    wins += en * len(pos)      # every scored positive beats an easy negative
    return wins / (P_ * N_)


def step_area(pos, neg, ep, en, sc, lo, hi):
    """exact area under the empirical step ROC (x=FPR, y=TPR) between x in [lo, hi]; no cross-class ties"""
    P_, N_ = len(pos) + ep, len(neg) + en
    order = sorted(neg, reverse=(sc == "pos"))           # negatives in the order they become false positives
    area = Fraction(0)
    for k in range(N_):
        a, b = Fraction(k, N_), Fraction(k + 1, N_)
        l_, h_ = max(a, Fraction(lo)), min(b, Fraction(hi))
        if h_ <= l_:
            continue
        if k < len(order):
            q = order[k]
            tp = sum(1 for p in pos if (p > q if sc == "pos" else p < q)) + ep
        else:
            tp = P_                                        # the step of an easy negative: all positives are already accepted
        area += (h_ - l_) * Fraction(tp, P_)
    return area


def oracle(case):
    from vf.framework import real_repo
    sa = real_repo()
    pos, neg, ep, en, sc, ec = case["pos"], case["neg"], case["ep"], case["en"], case["sc"], case["ec"]
    s = sa.Scores(pos, neg, nb_easy_pos=ep, nb_easy_neg=en, score_class=sc, equal_class=ec)
    info = f"[pos={pos} neg={neg} easy=({ep},{en}) {sc}/{ec}]"
    full = s.auc()
    mw = mann_whitney(pos, neg, ep, en, sc)
    if abs(full - float(mw)) > 1e-12:
        return f"auc() = {full!r} but the Mann-Whitney statistic is {float(mw)!r} {info}"
    if abs(s.auc(x_axis="tpr", y_axis="fpr") - (1 - full)) > 1e-12:
        return f"exchanging the axes over the full range: {s.auc(x_axis='tpr', y_axis='fpr')!r} != 1 - {full!r} {info}"
    if case.get("huge"):
        # very large easy counts (beyond 32-bit integers): only the clauses that need no enumeration of the 1/N grid
        for lo, hi in ((0.0, 0.5), (0.25, 0.75), (0.9, 1.0)):
            a = s.auc(lo, hi)
            if not (0 <= a <= hi - lo + 1e-12):
                return f"auc({lo}, {hi}) = {a!r} is outside [0, upper-lower] {info}"
            if abs(s.auc(lo, hi, y_axis="fnr") - ((hi - lo) - a)) > 1e-9:
                return f"y-complement fails on [{lo},{hi}] {info}"
        return None
    if set(pos) & set(neg):
        return None
    cuts = sorted({Fraction(0), Fraction(1)} | {Fraction(k, len(neg) + en) for k in range(len(neg) + en + 1)} | {Fraction(1, 3), Fraction(7, 10), Fraction(1, 20)})
    for lo, hi in itertools.combinations(cuts, 2):
        a = s.auc(float(lo), float(hi))
        exp = step_area(pos, neg, ep, en, sc, lo, hi)
        if abs(a - float(exp)) > 1e-12:
            return f"auc({float(lo)!r}, {float(hi)!r}) = {a!r} but the step-ROC area is {float(exp)!r} {info}"
        if a > float(hi - lo) + 1e-12:
            return f"auc({float(lo)!r}, {float(hi)!r}) = {a!r} exceeds upper-lower {info}"
        yc = s.auc(float(lo), float(hi), y_axis="fnr")
        if abs(yc - (float(hi - lo) - a)) > 1e-12:
            return f"y-complement: auc(fnr) {yc!r} != (upper-lower) - {a!r} on [{float(lo)},{float(hi)}] {info}"
        xc = s.auc(float(1 - hi), float(1 - lo), x_axis="tnr")
        if abs(xc - a) > 1e-12:
            return f"x-complement: auc over tnr on the mirrored interval {xc!r} != {a!r} on [{float(lo)},{float(hi)}] {info}"
    for lo, mid, hi in itertools.combinations(cuts[::2] + [Fraction(1, 3)], 3):
        lo, mid, hi = sorted((lo, mid, hi))
        if abs(s.auc(float(lo), float(mid)) + s.auc(float(mid), float(hi)) - s.auc(float(lo), float(hi))) > 1e-12:
            return f"not additive over [{float(lo)},{float(mid)}] + [{float(mid)},{float(hi)}] {info}"
    return None


def replay(case):
    return oracle(case)


def eval_items(items):
    counts, viols = {"auc": [0, 0]}, []
    for case in items:
        try:
            res = oracle(case)
        except Exception as e:
            res = f"auc raised {type(e).__name__}: {e} [pos={case['pos']} neg={case['neg']} easy=({case['ep']},{case['en']}) {case['sc']}/{case['ec']}]"
        counts["auc"][0] += 1
        counts["auc"][1] += 1
        if res:
            kind = "mann-whitney" if "Mann-Whitney" in res else "step-area" if "step-ROC" in res else "additive" if "additive" in res else \
                "complement" if "complement" in res or "exchanging" in res else "bound" if "exceeds" in res else "raised"
            viols.append(("auc", f"C07/bounded/{kind}[{case['sc']},{case['ec']}]", res, B.jsonable(case)))
    return counts, viols, []


def bounded(chk):
    from vf.framework import run_bounded
    maxn = 5 if chk.tier == "quick" else 7
    easy = [(0, 0), (1, 0), (0, 3), (2, 1)] if chk.tier == "quick" else [(0, 0), (1, 0), (0, 1), (0, 3), (2, 1), (3, 3)]
    items = []
    for pos, neg in B.order_types(maxn, min_pos=1, min_neg=1):
        for ep, en in easy:
            for sc, ec in B.CONFIGS:
                items.append({"pos": pos, "neg": neg, "ep": ep, "en": en, "sc": sc, "ec": ec})
    for pos, neg in (([1.0, 3.0], [2.0, 4.0]), ([2.0], [1.0, 2.0, 3.0])):
        for ep, en in ((0, 3 * 10**9), (2**31, 0), (10**12, 2**33)):
            for sc, ec in B.CONFIGS:
                items.append({"pos": pos, "neg": neg, "ep": ep, "en": en, "sc": sc, "ec": ec, "huge": True})
    chk.bounded["bound"] = f"easy counts beyond 2^31 (full AUC, bound, complement); all weak orderings (every tie pattern) with both classes non-empty, pos+neg <= {maxn}; easy counts {easy}; 4 configurations; every pair of cuts on the 1/N grid plus 1/20, 1/3, 7/10"
    chk.bounded["rule"] = "enumerated; exact rational reference values (Mann-Whitney statistic, step-ROC area)"
    chk.bounded["exhaustive"] = True
    run_bounded(chk, items, eval_items)
    chk.samples.append({"bounded-case": items[min(70, len(items) - 1)]})


def run(chk):
    prove(chk, build, replay=replay, parts=PARTS)
    bounded(chk)
    chk.extra["explanation"] = ("proved for all inputs: the window contract of Scores.auc (evaluation points, ascending pre-condition of both cuts, index bounds, window soundness "
                                "and completeness, cut values, ascending integration nodes, non-negative result) with the rate methods as contracts. Bounded-exhaustive: equality with "
                                "the Mann-Whitney statistic and the exact step area, additivity, the bound, the three complement identities -- these need an induction over the merged "
                                "node sequence that the contracts do not carry.")
