"""Bounded stand-in layer: enumerators of small inputs and brute-force oracles written from the property statements
(no call into the code under test).  Everything decided here is labelled `bounded` and never counted as proved."""
import itertools

import numpy as np

CONFIGS = [("pos", "pos"), ("pos", "neg"), ("neg", "pos"), ("neg", "neg")]


def order_types(max_total, min_pos=0, min_neg=0, tie_free=False):
    """all order types of (positives, negatives): a sequence of tie groups, each with multiplicities (p, q), p+q>=1.
    Yields (pos, neg) as lists of floats 1.0, 2.0, ... (group k has value k+1)."""
    def rec(total):
        yield []
        if total == 0:
            return
        for s in range(1, total + 1):
            for p in range(s + 1):
                q = s - p
                if tie_free and s > 1:
                    continue
                for rest in rec(total - s):
                    yield [(p, q)] + rest
    for groups in rec(max_total):
        pos = [float(k + 1) for k, (p, q) in enumerate(groups) for _ in range(p)]
        neg = [float(k + 1) for k, (p, q) in enumerate(groups) for _ in range(q)]
        if len(pos) >= min_pos and len(neg) >= min_neg:
            yield pos, neg


def thresholds_for(values, with_inf=True):
    vals = sorted(set(values))
    out = []
    for v in vals:
        out += [np.nextafter(v, -np.inf), v, np.nextafter(v, np.inf), v + 0.5]
    out += [(vals[0] if vals else 0.0) - 0.5]
    if with_inf:
        out += [-np.inf, np.inf]
    return np.array(sorted(set(out)), dtype=float)


def rule(sc, ec, s, t):
    """documented decision rule: is a sample with score s predicted positive at threshold t"""
    if sc == "pos":
        return s >= t if ec == "pos" else s > t
    return s <= t if ec == "pos" else s < t


def cm_oracle(pos, neg, ep, en, sc, ec, t):
    tp = sum(1 for s in pos if rule(sc, ec, s, t)) + ep
    fn = sum(1 for s in pos if not rule(sc, ec, s, t))
    fp = sum(1 for s in neg if rule(sc, ec, s, t))
    tn = sum(1 for s in neg if not rule(sc, ec, s, t)) + en
    return [[tp, fn], [fp, tn]]


def rates(m):
    (tp, fn), (fp, tn) = m
    p, n, tot = tp + fn, fp + tn, tp + fn + fp + tn
    d = lambda a, b: (a / b) if b else float("nan")
    return {"tpr": d(tp, p), "fnr": d(fn, p), "tnr": d(tn, n), "fpr": d(fp, n), "topr": d(tp + fp, tot), "tonr": d(fn + tn, tot)}


def jsonable(x):
    if isinstance(x, np.ndarray):
        return x.tolist()
    if isinstance(x, (np.floating, np.integer)):
        return x.item()
    if isinstance(x, dict):
        return {k: jsonable(v) for k, v in x.items()}
    if isinstance(x, (list, tuple)):
        return [jsonable(v) for v in x]
    return x


def fl(x):
    """floats from json (inf / -inf / nan arrive as floats already with python json)"""
    return np.asarray(x, dtype=float)
