import sys, os, importlib
sys.path.insert(0, '/verif'); sys.setrecursionlimit(20000)
from vf.solve import discharge
from vf.proof import literal
mod = importlib.import_module('props.' + sys.argv[1])
pat = sys.argv[2] if len(sys.argv) > 2 else ''
sizes = eval(sys.argv[3]) if len(sys.argv) > 3 else None
obs = mod.build(sizes) if sizes is not None else mod.build()
obs = [o for o in obs if pat in o.id]
sol = [o for o in obs if not (literal(o.goal) is not None and (not o.hyps or literal(o.goal)))]
discharge(sol, timeout_s=int(os.environ.get('TO', '20')))
for o in obs:
    if o.status != 'unsat':
        print(o.id, o.status, o.backend, round(o.time, 2), str(o.detail)[:300], o.meta if o.status is None else '')
        if os.environ.get('SHOW'):
            print('  GOAL', o.goal)
            for h in o.hyps: print('  HYP', str(h)[:400])
print(len(obs), 'obligations;', sum(o.status == 'unsat' for o in sol), 'discharged by solver; total time', round(sum(o.time for o in sol), 2))
import collections
print("by backend", collections.Counter(o.backend for o in sol))
for o in sorted(sol, key=lambda o: -o.time)[:12]:
    print(round(o.time, 2), o.backend, o.status, o.id)
