"""Further primitive contracts (pandas, RNG, misc); registered on import."""
from z3 import And, BoolSort, ForAll, If, Implies, Int, IntSort, IntVal, MultiPattern, Not, Or, Real, RealSort, RealVal, ToReal

from .engine import (FV, INF, NINF, UF, Axis, EnumVal, Obj, T, Unsupported, b_and, b_not, b_or, boollike, intlike,
                     is_scalar, is_sym, ite, lift, pyint, same_size, toB, toI, toR)
from .prims import PRIMS, as_tensor, from_list, items_of, mk_array, prim, sel


@prim("pd.DataFrame", is_property=False)
def p_dataframe(ex, path, *a, **k):
    raise Unsupported("pandas DataFrame construction")


PRIMS["pd.DataFrame"] = ("pdDataFrame",)
PRIMS["Iterable"] = ("Iterable",)


# ---- mutating methods: logged for the frame analysis (DESIGN 5.3); the value model treats them as no-ops on purpose,
# because the frame obligation fails as soon as one of them touches an array that is not fresh
def _mutator(name):
    def f(ex, path, x, *a, **k):
        prov = x.prov if isinstance(x, T) else "scalar"
        ex.stores.append((f"in-place {name}", prov, 0))
        if prov == "fresh" or prov.startswith("view:fresh"):
            raise Unsupported(f"in-place {name} on a fresh array (value model missing)")
        return None
    return f


for _n in ("sort", "fill", "resize", "put", "partition", "itemset"):
    prim("ndarray." + _n)(_mutator(_n))


# ---- C13: quantiles / reductions with NaN-aware columns --------------------------------------------------------------
from z3 import ArraySort, BoolSort as _BoolSort, Lambda
from .engine import ArrS, nan_of

BArrS = ArraySort(IntSort(), _BoolSort())
nanq = UF("nanq", ArrS, BArrS, IntSort(), RealSort(), RealSort())       # NaN-ignoring empirical quantile of a column
isfinite_uf = UF("isfinite", RealSort(), _BoolSort())


def column(ex, t, rest_idx):
    from .prims import canon_lambda
    from z3 import BoolVal

    def nn(i):
        n_ = nan_of(t.elem(i, *rest_idx))
        return BoolVal(n_) if isinstance(n_, bool) else toB(n_)
    return canon_lambda(lambda i: toR(t.elem(i, *rest_idx))), canon_lambda(nn), toI(t.axes[0].size)


@prim("np.nanquantile")
def p_nanquantile(ex, path, t, q=None, axis=None):
    if axis != 0:
        raise Unsupported("nanquantile axis")
    t = as_tensor(ex, path, t)
    qt = as_tensor(ex, path, q) if not isinstance(q, T) else q
    rest = t.axes[1:]

    def elem(*idx):
        qi, yi = idx[:qt.ndim], idx[qt.ndim:]
        vals, nans, n = column(ex, t, yi)
        return nanq(vals, nans, n, toR(qt.elem(*qi)))
    axes = tuple(qt.axes) + tuple(rest)
    return T(axes, elem, kind="real") if axes else elem()


@prim("np.isfinite")
def p_isfinite(ex, path, x):
    return lift(lambda v: isfinite_uf(toR(v)), x, kind="bool")


def _nan_reduce(name):
    def f(ex, path, x, axis=None):
        x = as_tensor(ex, path, x)
        if axis != 0 or x.axes[0].concrete():
            raise Unsupported(name)
        red = UF(name, ArrS, BArrS, IntSort(), RealSort())
        rest = x.axes[1:]

        def elem(*idx):
            vals, nans, n = column(ex, x, idx)
            return red(vals, nans, n)
        return T(rest, elem, kind="real") if rest else elem()
    return f


PRIMS["np.nansum"] = _nan_reduce("nansum_red")


# ---- RNG primitives (assumed range contracts; every call is logged for the determinism / reproducibility obligations) ----
from z3 import Function as _Fn, Sum as _Sum


def _rng_log(ex, name, **info):
    ex.rng_calls.append(name)
    ex.__dict__.setdefault("rng_log", []).append(dict(name=name, **info))


def _draw_tensor(ex, path, base, size, lo, hi, kind="int"):
    """tensor of fresh draws of the given size, each in [lo, hi] (None = unbounded)"""
    n = toI(size)
    if kind == "int":
        f = _Fn(f"{base}!{next(ex.fresh)}", IntSort(), IntSort())
    else:
        f = _Fn(f"{base}!{next(ex.fresh)}", IntSort(), RealSort())
    i = Int("i!rng")
    conds = []
    if lo is not None:
        conds.append(f(i) >= lo)
    if hi is not None:
        conds.append(f(i) <= hi)
    if conds:
        path.add(ForAll([i], Implies(And(0 <= i, i < n), And(*conds)), patterns=[f(i)]))
    t = T((Axis(base, size),), lambda k, f=f: f(toI(k)), kind=kind, prov="fresh")
    t.draw_fn = f
    return t


@prim("np.random.binomial")
def p_binomial(ex, path, n=None, p=None, size=None):
    _rng_log(ex, "np.random.binomial", n=n, p=p, size=size)
    if size is None:
        k = ex.new_int("binom")
        path.add(And(0 <= k, k <= toI(n)))
        return k
    return _draw_tensor(ex, path, "binom", size, 0, toI(n))


@prim("np.random.poisson")
def p_poisson(ex, path, lam=None, size=None):
    _rng_log(ex, "np.random.poisson", lam=lam, size=size)
    if size is None:
        k = ex.new_int("poisson")
        path.add(k >= 0)
        return k
    return _draw_tensor(ex, path, "poisson", size, 0, None)


@prim("np.random.choice")
def p_choice(ex, path, a, size=None, replace=True, p=None):
    _rng_log(ex, "np.random.choice", a=a, size=size, replace=replace)
    if isinstance(a, T):
        n = toI(a.axes[0].size)
        ex.oblige("np.random.choice: population non-empty", path, n >= 1, "precondition")
        if not replace:
            ex.oblige("np.random.choice(replace=False): size <= population", path, toI(size) <= n, "precondition")
        idx = _draw_tensor(ex, path, "choice_idx", size, 0, n - 1)
        if not replace:
            f = idx.draw_fn
            i, j = Int("i!ch"), Int("j!ch")
            path.add(ForAll([i, j], Implies(And(0 <= i, i < j, j < toI(size)), f(i) != f(j)), patterns=[MultiPattern(f(i), f(j))]))
        out = T(idx.axes, lambda k, a=a, idx=idx: a.elem(idx.elem(k)), kind=a.kind, prov="fresh")
        out.choice_of = (a, idx, replace)
        return out
    n = toI(a)
    if size is None:
        ex.oblige("np.random.choice: population non-empty", path, n >= 1, "precondition")
        k = ex.new_int("choice")
        path.add(And(0 <= k, k < n))
        return k
    # NumPy raises for an empty population unless size == 0
    ex.oblige("np.random.choice: population non-empty (or nothing drawn)", path, Or(n >= 1, toI(size) == 0), "precondition")
    t = _draw_tensor(ex, path, "choice", size, 0, n - 1)
    t.choice_of = (a, None, replace)
    return t


@prim("np.random.normal")
def p_normal(ex, path, loc=0.0, scale=1.0, size=None):
    _rng_log(ex, "np.random.normal", size=size)
    if size is None:
        return ex.new_real("normal")
    sz = size[0] if isinstance(size, tuple) else size
    sz = sz.size if isinstance(sz, Axis) else sz
    return _draw_tensor(ex, path, "normal", sz, None, None, kind="real")


@prim("np.arange")
def p_arange(ex, path, n):
    if pyint(n):
        return from_list(ex, path, list(range(n)))
    t = T((Axis("arange", n),), lambda k: toI(k), kind="int", prov="fresh")
    t.is_arange = True
    return t


@prim("np.repeat")
def p_repeat(ex, path, a, repeats):
    """np.repeat(np.arange(n), counts): requires len(counts) == n and counts >= 0; the result is non-decreasing, has length
    sum(counts), takes values in [0, n) and the value i occurs counts[i] times"""
    if not (isinstance(a, T) and getattr(a, "is_arange", False) and isinstance(repeats, T) and repeats.ndim == 1):
        raise Unsupported("np.repeat (only np.repeat(np.arange(n), counts) has a contract)")
    n = toI(a.axes[0].size)
    ex.oblige("np.repeat: len(repeats) == len(a)", path, toI(repeats.axes[0].size) == n, "precondition")
    k = ex.new_int("k")
    ex.oblige("np.repeat: repeats >= 0", path.pc + [And(0 <= k, k < n)], toI(repeats.elem(k)) >= 0, "precondition")
    from .prims import canon_lambda
    total = UF("isum_red", ArraySort(IntSort(), IntSort()), IntSort(), IntSort())(canon_lambda(lambda i: toI(repeats.elem(i))), n)
    R = _Fn(f"repeat!{next(ex.fresh)}", IntSort(), IntSort())
    i, j = Int("i!rp"), Int("j!rp")
    path.add(total >= 0)
    # a sum of non-negative terms dominates each term: instantiated at the positions that were written explicitly
    for w in getattr(repeats, "written", []):
        if len(w) == 1:
            path.add(Implies(And(0 <= toI(w[0]), toI(w[0]) < n), total >= toI(repeats.elem(w[0]))))
    path.add(ForAll([i], Implies(And(0 <= i, i < total), And(0 <= R(i), R(i) < n)), patterns=[R(i)]))
    path.add(ForAll([i, j], Implies(And(0 <= i, i <= j, j < total), R(i) <= R(j)), patterns=[MultiPattern(R(i), R(j))]))
    t = T((Axis("repeat", total),), lambda q, R=R: R(toI(q)), kind="int", prov="fresh")
    t.repeat_of = (a, repeats, total)
    return t


@prim("np.quantile")
def p_quantile(ex, path, x, q, **kw):
    return UF("quantile_of", IntSort(), RealSort(), RealSort())(IntVal(id(x) % 1000003), toR(q))


@prim("ndarray.std")
def p_std(ex, path, x, **kw):
    return UF("std_of", IntSort(), RealSort())(IntVal(id(x) % 1000003))


@prim("np.median")
def p_median(ex, path, x, **kw):
    return UF("median_of", IntSort(), RealSort())(IntVal(id(x) % 1000003))


# ---- C12: argsort / boolean-mask compression ---------------------------------------------------------------------
@prim("np.argsort")
def p_argsort(ex, path, x, **kw):
    """permutation pi of [0,n) such that x[pi] is ascending"""
    x = as_tensor(ex, path, x)
    n = toI(x.axes[0].size)
    pi = _Fn(f"argsort!{next(ex.fresh)}", IntSort(), IntSort())
    inv = _Fn(f"argsort_inv!{next(ex.fresh)}", IntSort(), IntSort())
    i, j = Int("i!as"), Int("j!as")
    if x.axes[0].concrete():
        m_ = x.axes[0].size
        if m_ > 6:
            raise Unsupported("argsort of a long concrete array")
        for a_ in range(m_):
            path.add(And(0 <= pi(a_), pi(a_) < m_, inv(pi(a_)) == a_, 0 <= inv(a_), inv(a_) < m_, pi(inv(a_)) == a_))
            for b_ in range(a_ + 1, m_):
                path.add(toR(x.elem(pi(a_))) <= toR(x.elem(pi(b_))))
        t = T((Axis("argsort", m_),), lambda k, pi=pi: pi(toI(k)), kind="int", prov="fresh")
        t.argsort_of = x
        t.perm_fn = (pi, inv)
        ex.__dict__.setdefault("argsort_log", []).append(pi)
        ex.__dict__.setdefault("argsort_calls", []).append({"pi": pi, "inv": inv, "of": x, "result": t})
        return t
    path.add(ForAll([i], Implies(And(0 <= i, i < n), And(0 <= pi(i), pi(i) < n, inv(pi(i)) == i)), patterns=[pi(i)]))
    path.add(ForAll([i], Implies(And(0 <= i, i < n), And(0 <= inv(i), inv(i) < n, pi(inv(i)) == i)), patterns=[inv(i)]))
    try:
        path.add(ForAll([i, j], Implies(And(0 <= i, i <= j, j < n), toR(x.elem(pi(i))) <= toR(x.elem(pi(j)))), patterns=[MultiPattern(pi(i), pi(j))]))
    except Exception as e_:
        raise Unsupported(f"argsort pattern: {e_}; n={n} pi(i)={pi(i)} body={toR(x.elem(pi(i)))}")
    t = T((Axis("argsort", x.axes[0].size),), lambda k, pi=pi: pi(toI(k)), kind="int", prov="fresh")
    t.argsort_of = x
    t.perm_fn = (pi, inv)
    ex.__dict__.setdefault("argsort_log", []).append(pi)
    ex.__dict__.setdefault("argsort_calls", []).append({"pi": pi, "inv": inv, "of": x, "result": t})
    return t


def p_maskselect(ex, path, a, mask):
    """a[mask] for a 1-D boolean mask over the leading axis: order-preserving sub-sequence.  Contract: there is a strictly
    increasing index map sigma: [0,m) -> [0,n) with mask[sigma(k)] and out[k] = a[sigma(k)], and every masked index is hit
    (rho is the inverse on masked indices)."""
    from .prims import USED
    USED.add("ndarray[boolean mask] (order-preserving selection)")
    if a.ndim != 1 or mask.ndim != 1:
        out = T(a.axes, a.elem, kind=a.kind)
        out.mask = (a.axes[0], mask)
        return out
    n = toI(a.axes[0].size)
    # the selection map depends on the mask only: two arrays compressed by the same mask object share sigma / rho / length
    memo = ex.__dict__.setdefault("msel_memo", {})
    hit = memo.get(id(mask))
    if hit is not None and hit[0] is mask:
        _, m, sigma, rho, facts, ax = hit
        have = {f.get_id() for f in path.pc}
        for f in facts:
            if f.get_id() not in have:
                path.add(f)
    else:
        m = ex.new_int("msel_len")
        sigma = _Fn(f"sigma!{next(ex.fresh)}", IntSort(), IntSort())
        rho = _Fn(f"rho!{next(ex.fresh)}", IntSort(), IntSort())
        i, j = Int("i!ms"), Int("j!ms")
        facts = [And(0 <= m, m <= n),
                 ForAll([i], Implies(And(0 <= i, i < m), And(0 <= sigma(i), sigma(i) < n, toB(mask.elem(sigma(i))), rho(sigma(i)) == i)), patterns=[sigma(i)]),
                 ForAll([i, j], Implies(And(0 <= i, i < j, j < m), sigma(i) < sigma(j)), patterns=[MultiPattern(sigma(i), sigma(j))]),
                 ForAll([i], Implies(And(0 <= i, i < n, toB(mask.elem(i))), And(0 <= rho(i), rho(i) < m, sigma(rho(i)) == i)), patterns=[rho(i)])]
        for f in facts:
            path.add(f)
        ax = Axis("msel", m)
        memo[id(mask)] = (mask, m, sigma, rho, facts, ax)
    if not same_size(a.axes[0].size, mask.axes[0].size):
        ex.oblige("boolean index has the length of the indexed axis", path, n == toI(mask.axes[0].size), "precondition")
    out = T((ax,), lambda k, a=a, sigma=sigma: a.elem(sigma(toI(k))), kind=a.kind, prov="fresh")
    out.select_of = (a, mask, sigma, rho, m)
    return out


PRIMS["__maskselect__"] = p_maskselect


@prim("warnings.warn")
def p_warn(ex, path, *a, **k):
    ex.__dict__.setdefault("warnings", []).append(a[0] if a else None)
    return None


# ---- numpy Generator methods (explicit rng objects of experimental/datasets.py): same range contracts --------------------
@prim("rng.binomial")
def p_rng_binomial(ex, path, n=None, p=None, size=None):
    return PRIMS["np.random.binomial"](ex, path, n=n, p=p, size=size)


@prim("rng.normal")
def p_rng_normal(ex, path, loc=0.0, scale=1.0, size=None):
    return PRIMS["np.random.normal"](ex, path, loc=loc, scale=scale, size=size)


@prim("rng.choice")
def p_rng_choice(ex, path, a, size=None, replace=True, p=None):
    return PRIMS["np.random.choice"](ex, path, a, size=size, replace=replace, p=p)


@prim("rng.shuffle")
def p_rng_shuffle(ex, path, x):
    """in-place permutation: the multiset of values (all the contracts talk about) is unchanged"""
    _rng_log(ex, "rng.shuffle")
    ex.__dict__.setdefault("shuffled", []).append(x)
    return None


@prim("np.random.default_rng")
def p_default_rng(ex, path, *a, **k):
    return Obj("Generator")


_repeat_arange = PRIMS["np.repeat"]


@prim("np.repeat")
def p_repeat_general(ex, path, a, repeats=None):
    """np.repeat(values, repeats) for a short concrete-length list of values: block i holds repeats[i] copies of values[i]"""
    a_t = as_tensor(ex, path, a) if not isinstance(a, T) else a
    r_t = as_tensor(ex, path, repeats) if not isinstance(repeats, T) else repeats
    if getattr(a_t, "is_arange", False) and not (r_t.ndim == 1 and r_t.axes[0].concrete()):
        return _repeat_arange(ex, path, a_t, r_t)
    if not (r_t.ndim == 1 and r_t.axes[0].concrete() and a_t.ndim == 1):
        raise Unsupported("np.repeat")
    m = r_t.axes[0].size
    if a_t.axes[0].concrete() and a_t.axes[0].size != m:
        ex.oblige("np.repeat: len(repeats) == len(a)", path, __import__("z3").BoolVal(False), "precondition")
    vals = [a_t.elem(i) for i in range(m)]
    reps = [toI(r_t.elem(i)) for i in range(m)]
    for i in range(m):
        ex.oblige(f"np.repeat: repeats[{i}] >= 0", path, reps[i] >= 0, "precondition")
    offs = [IntVal(0)]
    for r_ in reps:
        offs.append(offs[-1] + r_)
    total = offs[-1]

    def elem(k):
        k = toI(k)
        res = vals[-1]
        for i in range(m - 2, -1, -1):
            res = ite(k < offs[i + 1], vals[i], res)
        return res
    from z3 import simplify as _simp
    t = T((Axis("repeat", _simp(total)),), elem, kind=a_t.kind, prov="fresh")
    t.repeat_parts = list(zip(vals, reps))
    return t


# ---- C17: nonzero / argmin / transpose -----------------------------------------------------------------------------
@prim("ndarray.T", is_property=True)
def p_transpose(ex, path, x):
    if not isinstance(x, T) or x.ndim != 2:
        raise Unsupported(".T of non-2-d")
    return T((x.axes[1], x.axes[0]), lambda i, j, x=x: x.elem(j, i), kind=x.kind, prov="view:" + x.prov)


@prim("np.nonzero")
def p_nonzero(ex, path, c):
    """np.nonzero of a (1, M) boolean array (one target row): indices (ti, si) of the true entries in row-major order"""
    if not (isinstance(c, T) and c.ndim == 2 and c.axes[0].concrete() and c.axes[0].size == 1):
        raise Unsupported("np.nonzero (only one-row boolean arrays have a contract)")
    M = toI(c.axes[1].size)
    K = ex.new_int("nb_nonzero")
    si = _Fn(f"nonzero_col!{next(ex.fresh)}", IntSort(), IntSort())
    rho = _Fn(f"nonzero_pos!{next(ex.fresh)}", IntSort(), IntSort())
    i, j = Int("i!nz"), Int("j!nz")
    path.add(And(0 <= K, K <= M))
    path.add(ForAll([i], Implies(And(0 <= i, i < K), And(0 <= si(i), si(i) < M, toB(c.elem(0, si(i))), rho(si(i)) == i)), patterns=[si(i)]))
    path.add(ForAll([i, j], Implies(And(0 <= i, i < j, j < K), si(i) < si(j)), patterns=[MultiPattern(si(i), si(j))]))
    path.add(ForAll([j], Implies(And(0 <= j, j < M, toB(c.elem(0, j))), And(0 <= rho(j), rho(j) < K, si(rho(j)) == j)), patterns=[rho(j)]))
    ax = Axis("nonzero", K)
    t0 = T((ax,), lambda k: 0, kind="int", prov="fresh")
    t1 = T((ax,), lambda k, si=si: si(toI(k)), kind="int", prov="fresh")
    t1.nonzero_of = (c, si, rho, K)
    return (t0, t1)


@prim("np.argmin")
def p_argmin(ex, path, x, axis=None):
    """argmin along axis 0 of an (N, 1) array: an index whose entry is <= every entry"""
    if not (isinstance(x, T) and x.ndim == 2 and x.axes[1].concrete() and x.axes[1].size == 1 and axis == 0):
        raise Unsupported("np.argmin (only (N,1) arrays along axis 0 have a contract)")
    N = toI(x.axes[0].size)
    ex.oblige("np.argmin: non-empty", path, N >= 1, "precondition")
    m = ex.new_int("argmin")
    i = Int("i!am")
    path.add(And(0 <= m, m < N))
    path.add(ForAll([i], Implies(And(0 <= i, i < N), toR(x.elem(m, 0)) <= toR(x.elem(i, 0)))))
    t = T((Axis("1", 1),), lambda k, m=m: m, kind="int", prov="fresh")
    t.argmin_of = (x, m)
    return t


# ---- C16: np.min / np.max of a boolean-mask selection with an initial value ------------------------------------------
def _sel_minmax(ismax):
    def f(ex, path, x, axis=None, initial=None, **kw):
        x = as_tensor(ex, path, x)
        sel = getattr(x, "select_of", None)
        if sel is None or initial is None:
            raise Unsupported("np.min/np.max (only of a mask selection with an initial value has a contract)")
        a, mask, sigma, rho, m = sel
        n = toI(a.axes[0].size)
        r = ex.new_real("selmax" if ismax else "selmin")
        v0 = toR(initial)
        i = Int("i!mm")
        w = ex.new_int("w_attained")
        le = (lambda p_, q_: p_ >= q_) if ismax else (lambda p_, q_: p_ <= q_)
        path.add(le(r, v0))
        path.add(ForAll([i], Implies(And(0 <= i, i < n, toB(mask.elem(i))), le(r, toR(a.elem(i))))))
        path.add(Or(r == v0, And(0 <= w, w < n, toB(mask.elem(w)), r == toR(a.elem(w)))))
        return r
    return f


PRIMS["np.min"] = _sel_minmax(False)
PRIMS["np.max"] = _sel_minmax(True)


# ---- C18: np.min along an axis of a symbolic 2-D array (contract: lower bound of the column, attained) ------------------
_sel_min, _sel_max = PRIMS["np.min"], PRIMS["np.max"]


def _axis_minmax(ismax, selfn):
    def f(ex, path, x, axis=None, initial=None, keepdims=False, **kw):
        x = as_tensor(ex, path, x)
        if getattr(x, "select_of", None) is not None or axis is None:
            return selfn(ex, path, x, axis=axis, initial=initial, **kw)
        ax = axis % x.ndim
        n = toI(x.axes[ax].size)
        ex.oblige("np.min/np.max along an axis: axis non-empty", path, n >= 1, "precondition")
        rest = x.axes[:ax] + x.axes[ax + 1:]
        R = _Fn(f"{'max' if ismax else 'min'}_along!{next(ex.fresh)}", *([IntSort()] * len(rest)), RealSort())
        W = _Fn(f"arg_along!{next(ex.fresh)}", *([IntSort()] * len(rest)), IntSort())
        ks = [Int(f"k{q}!ax") for q in range(len(rest))]
        i = Int("i!ax")
        full = lambda ii: toR(x.elem(*(ks[:ax] + [ii] + ks[ax:])))
        rng_ = [And(0 <= k_, k_ < toI(a_.size)) for k_, a_ in zip(ks, rest)]
        le = (lambda p_, q_: p_ >= q_) if ismax else (lambda p_, q_: p_ <= q_)
        if ks:
            path.add(ForAll(ks + [i], Implies(And(*rng_, 0 <= i, i < n), le(R(*ks), full(i))), patterns=[__import__("z3").MultiPattern(R(*ks), full(i))] if False else []))
            path.add(ForAll(ks, Implies(And(*rng_), And(0 <= W(*ks), W(*ks) < n, R(*ks) == full(W(*ks)))), patterns=[R(*ks)]))
        else:
            path.add(ForAll([i], Implies(And(0 <= i, i < n), le(R(), full(i)))))
            path.add(And(0 <= W(), W() < n, R() == full(W())))
        t = T(rest, lambda *idx, R=R: R(*[toI(q) for q in idx]), kind="real", prov="fresh") if rest else R()
        if isinstance(t, T):
            t.reduce_of = (x, ax, R, W)
        return t
    return f


PRIMS["np.min"] = _axis_minmax(False, _sel_min)
PRIMS["np.max"] = _axis_minmax(True, _sel_max)
