#!/bin/bash
# tools/runall.sh [tier] [ids...] -- run every registered check on the current tree, one summary line each; exit 1 if any is not green
cd "$(dirname "$0")/.."
TIER=${1:-quick}; shift
IDS=${@:-C01 C02 C03 C04 C05 C06 C07 C08 C09 C10 C11 C12 C13 C14 C15 C16 C17 C18 C19 C20}
bad=0
for i in $IDS; do
  out=$(./check $i --tier $TIER 2>&1); rc=$?
  line=$(echo "$out" | grep " tier=$TIER:" | tail -1)
  echo "rc=$rc $line"
  if [ $rc -ne 0 ] || echo "$line" | grep -qv "undecided 0"; then bad=1; echo "$out" | grep "^VIOLATION\|^UNDECIDED" | head -5; fi
done
exit $bad
