"""C06 -- EER is a crossing point.

  _find_root   executed with an *uninterpreted* function f and the sidecar loop invariant
                   xa0 <= xa < xe <= xe0  and  f(xa) <= 0 <= f(xe)
               init / preservation (three body paths) / exit: the result lies strictly inside (xa0, xe0); ValueError iff not
               f(xa0) <= 0 <= f(xe0).  Termination is not proved.
  eer          executed against the *contracts* of threshold_at_fpr / threshold_at_fnr (deterministic uninterpreted functions of
               the target; pre-condition: relevant class non-empty) and of _find_root (call-site obligation f(0) <= 0 <= f(max_eer));
               on every return path: 0 <= e <= 1, e <= min(hard_pos_ratio, hard_neg_ratio); a returned e = 0 comes with a threshold
               at which FP = FN = 0 by the documented decision rule (all inputs, ties included); on the paths that compute the
               threshold from e it is threshold_at_fpr(e) (so C02's bracket gives 'FPR within one sample of e').
'FNR within one sample of e', and the affine / reversal equivariance are bounded only (tie-free order types).
"""
import numpy as np
from z3 import And, BoolVal, Function, If, Implies, Int, Not, Or, Real, RealSort, ToReal

from vf import bounded as B
from vf import prims as P
from vf.common import mk_scores, new_exec, predpos, run_method
from vf.engine import Oblig, Path, PyRaise, T, toI, toR
from vf.proof import prove

LEVEL = "other"


def build(sizes=None, only=None, part=None):
    obs = []
    if sizes is not None:
        return obs
    if part in (None, "root"):
        obs += guarded(build_find_root)
    for sc, ec in B.CONFIGS:
        if part is not None and part != f"{sc},{ec}":
            continue
        obs += guarded(build_eer, sc, ec)
    if part in (None, "root"):
        # "FPR and FNR at its threshold, computed by the same object": Scores.cm's contract (C01's) re-discharged in this check
        from props import c01
        obs += guarded(c01.build_cm, None, "C06")
    return obs


PARTS = ["root"] + [f"{sc},{ec}" for sc, ec in B.CONFIGS]


def guarded(fn, *a):
    try:
        return fn(*a)
    except Exception as e:
        import os
        if os.environ.get("VERIF_DEBUG"):
            import traceback
            traceback.print_exc()
        return [Oblig(f"C06/{fn.__name__[6:]}{list(a)}/executes", [], BoolVal(False), "post", ("C06",), {"engine_error": f"{type(e).__name__}: {e}"})]


def build_find_root():
    obs = []
    F = Function("f!root", RealSort(), RealSort())
    for find_first in (True, False):
        xa0, xe0, xtol = Real("xa0"), Real("xe0"), Real("xtol")

        def inv(ex, env, path, xa0=xa0, xe0=xe0):
            xa, xe = toR(env["xa"]), toR(env["xe"])
            return And(xa0 <= xa, xa < xe, xe <= xe0, F(xa) <= 0, F(xe) >= 0)
        ex = new_exec(invariants={("Scores._find_root", "while", 0): {"inv": inv, "props": ("C06",)}})
        path = Path()
        path.add(And(xa0 < xe0, xtol > 0))
        f = ("pyfunc", lambda ex_, p_, x: F(toR(x)))
        outs = run_method(ex, "Scores", "_find_root", None, [f, xa0, xe0], {"find_first": find_first, "xtol": xtol}, path=path)
        tag = f"[find_first={find_first}]"
        ok_path = [o for o in outs if not o.raised]
        err_path = [o for o in outs if o.raised]
        obs.append(Oblig(f"C06/_find_root/one-normal-and-one-error-path{tag}", [], BoolVal(len(ok_path) == 1 and len(err_path) == 1), "post", ("C06",)))
        for o in ok_path:
            obs.append(Oblig(f"C06/_find_root/result-strictly-inside-the-interval{tag}", o.path.pc, And(xa0 < toR(o.value), toR(o.value) < xe0), "post", ("C06",)))
            obs.append(Oblig(f"C06/_find_root/normal-path-only-if-f(xa)<=0<=f(xe){tag}", o.path.pc, And(F(xa0) <= 0, F(xe0) >= 0), "post", ("C06",)))
        for o in err_path:
            obs.append(Oblig(f"C06/_find_root/ValueError-iff-sign-condition-fails{tag}", o.path.pc, And(BoolVal("ValueError" in str(o.value.exc)), Not(And(F(xa0) <= 0, F(xe0) >= 0))), "post", ("C06",)))
        for so in ex.obligs:
            so.id = f"C06/_find_root/{so.id}{tag}"
            so.props = ("C06",)
            obs.append(so)
    return obs


def build_eer(sc, ec):
    obs = []
    tag = f"[{sc},{ec}]"
    thr_fpr = Function("thr_at_fpr!c", RealSort(), RealSort())
    thr_fnr = Function("thr_at_fnr!c", RealSort(), RealSort())
    calls = {"root": []}

    def c_thr(fn, cls_attr):
        def c(ex, path, self_, x, method="linear"):
            n = toI(self_.attrs[cls_attr].axes[0].size)
            ex.oblige(f"call-site-precondition: {cls_attr} non-empty", path, n >= 1, "precondition", ("C06",))
            return fn(toR(x))
        return c

    def c_root(ex, path, f, xa, xe, find_first=None, xtol=None):
        fa, fe = toR(ex.apply(f, [xa], {}, path)), toR(ex.apply(f, [xe], {}, path))
        ex.oblige("call-site-precondition of _find_root: f(xa) <= 0 <= f(xe)", path, And(fa <= 0, fe >= 0), "precondition", ("C06",))
        ex.oblige("call-site-precondition of _find_root: xa < xe", path, toR(xa) < toR(xe), "precondition", ("C06",))
        r = ex.new_real("root")
        path.add(And(toR(xa) < r, r < toR(xe)))        # contract of _find_root (discharged in build_find_root)
        calls["root"].append(r)
        return r
    ex = new_exec(contracts={("Scores", "threshold_at_fpr"): c_thr(thr_fpr, "neg"), ("Scores", "threshold_at_fnr"): c_thr(thr_fnr, "pos"),
                             ("Scores", "_find_root"): c_root})
    path = Path()
    me = mk_scores(ex, path, sc, ec, min_pos=1, min_neg=1)
    outs = run_method(ex, "Scores", "eer", me, [], path=path)
    live = [o for o in outs if not o.raised]
    obs.append(Oblig(f"C06/eer/no-raising-path{tag}", [], BoolVal(len(live) == len(outs) and len(live) >= 3), "post", ("C06",), {"paths": len(outs)}))
    npos, nneg = toI(me.attrs["pos"].axes[0].size), toI(me.attrs["neg"].axes[0].size)
    ep, en = toI(me.attrs["nb_easy_pos"]), toI(me.attrs["nb_easy_neg"])
    hp = ToReal(npos) / ToReal(npos + ep)
    hn = ToReal(nneg) / ToReal(nneg + en)
    for k, o in enumerate(live):
        v = o.value
        ok = isinstance(v, tuple) and len(v) == 2
        obs.append(Oblig(f"C06/eer/path{k}/returns-(threshold,eer){tag}", [], BoolVal(bool(ok)), "shape", ("C06",)))
        if not ok:
            continue
        t, e = toR(v[0]), toR(v[1])
        hy = o.path.pc
        obs.append(Oblig(f"C06/eer/path{k}/0<=e<=1{tag}", hy, And(0 <= e, e <= 1), "post", ("C06",), {"key": f"C06/eer/range{tag}"}))
        obs.append(Oblig(f"C06/eer/path{k}/e<=min(hard_pos_ratio,hard_neg_ratio){tag}", hy, And(e * ToReal(npos + ep) <= ToReal(npos), e * ToReal(nneg + en) <= ToReal(nneg)), "post", ("C06",),
                         {"key": f"C06/eer/cap{tag}"}))
        # zero-EER clause against the documented decision rule
        facts = []
        for arr in (me.attrs["pos"], me.attrs["neg"]):
            A, N = arr.sym
            facts.append(P.cnt_char(A, N, t))
        fp = predpos(sc, ec, me.attrs["neg"], t)
        fn = npos - predpos(sc, ec, me.attrs["pos"], t)
        obs.append(Oblig(f"C06/eer/path{k}/e=0-implies-no-errors-at-the-threshold{tag}", hy + facts, Implies(e == 0, And(fp == 0, fn == 0)), "post", ("C06",),
                         {"key": f"C06/eer/zero-eer{tag}"}))
        # structure: threshold computed from e through threshold_at_fpr (or the symmetric fnr form / the shortcut)
        shapes = Or(t == thr_fpr(e), t == thr_fnr(e), t == (thr_fpr(e) + thr_fnr(e)) / 2, e == 0)
        obs.append(Oblig(f"C06/eer/path{k}/threshold-is-threshold_at_fpr(e)-or-symmetric-form{tag}", hy, shapes, "post", ("C06",), {"key": f"C06/eer/structure{tag}"}))
    for so in ex.obligs:
        so.id = f"C06/eer/{so.id}#{len(obs)}{tag}"
        so.props = ("C06",)
        obs.append(so)
    return obs


# ----------------------------------------------------------------------------------------------------------------
# bounded layer

def oracle(case):
    from vf.framework import real_repo
    sa = real_repo()
    pos, neg = np.array(case["pos"], dtype=float), np.array(case["neg"], dtype=float)
    sc, ec, ep, en = case["sc"], case["ec"], case["ep"], case["en"]
    s = sa.Scores(pos, neg, nb_easy_pos=ep, nb_easy_neg=en, score_class=sc, equal_class=ec)
    info = f"[pos={case['pos']} neg={case['neg']} easy=({ep},{en}) {sc}/{ec}]"
    t, e = s.eer()
    if not (0 <= e <= 1):
        return f"eer {e!r} outside [0,1] {info}"
    cap = min(len(pos) / (len(pos) + ep), len(neg) / (len(neg) + en))
    if e > cap + 1e-12:
        return f"eer {e!r} exceeds the smaller hard-sample fraction {cap!r} {info}"
    m = B.cm_oracle(list(pos), list(neg), ep, en, sc, ec, t)
    fpr, fnr = m[1][0] / (m[1][0] + m[1][1]), m[0][1] / (m[0][0] + m[0][1])
    if e == 0 and (m[1][0] != 0 or m[0][1] != 0):
        return f"eer() = ({t!r}, 0.0) but at that threshold FP={m[1][0]}, FN={m[0][1]} {info}"
    tiefree = len(set(case["pos"]) | set(case["neg"])) == len(pos) + len(neg)
    if tiefree:
        if abs(fpr - e) > 1 / (len(neg) + en) + 1e-9 or abs(fnr - e) > 1 / (len(pos) + ep) + 1e-9:
            return f"eer() = ({t!r}, {e!r}) but FPR(t)={fpr!r}, FNR(t)={fnr!r} are not within one sample {info}"
        own_fpr, own_fnr = float(s.fpr(t)), float(s.fnr(t))          # "computed by the same object"
        if abs(own_fpr - e) > 1 / (len(neg) + en) + 1e-9 or abs(own_fnr - e) > 1 / (len(pos) + ep) + 1e-9:
            return f"eer() = ({t!r}, {e!r}) but the object's own FPR(t)={own_fpr!r}, FNR(t)={own_fnr!r} are not within one sample {info}"
        a_, b_ = 2.0, -3.0
        t2, e2 = sa.Scores(a_ * pos + b_, a_ * neg + b_, nb_easy_pos=ep, nb_easy_neg=en, score_class=sc, equal_class=ec).eer()
        if abs(e2 - e) > 1e-9 or abs(t2 - (a_ * t + b_)) > 1e-6 * (1 + float(np.ptp(np.concatenate([pos, neg])))):
            return f"eer not equivariant under s -> 2s-3: ({t!r},{e!r}) vs ({t2!r},{e2!r}) {info}"
        t3, e3 = sa.Scores(-pos, -neg, nb_easy_pos=ep, nb_easy_neg=en, score_class={"pos": "neg", "neg": "pos"}[sc], equal_class=ec).eer()
        if abs(e3 - e) > 1e-9 or abs(t3 + t) > 1e-6 * (1 + float(np.ptp(np.concatenate([pos, neg])))):
            return f"eer not equivariant under score reversal: ({t!r},{e!r}) vs ({t3!r},{e3!r}) {info}"
    return None


def replay(case):
    return oracle(case)


def eval_items(items):
    counts, viols = {"eer": [0, 0]}, []
    for case in items:
        try:
            res = oracle(case)
        except Exception as ex_:
            res = f"eer raised {type(ex_).__name__}: {ex_} [pos={case['pos']} neg={case['neg']} easy=({case['ep']},{case['en']}) {case['sc']}/{case['ec']}]"
        counts["eer"][0] += 1
        counts["eer"][1] += 1
        if res:
            kind = "zero-eer" if "but at that threshold" in res else "cap" if "exceeds" in res else "range" if "outside" in res else \
                "one-sample" if "within one sample" in res else "equivariance" if "equivariant" in res else "raised"
            viols.append(("eer", f"C06/bounded/{kind}[{case['sc']},{case['ec']}]", res, B.jsonable(case)))
    return counts, viols, []


def bounded(chk):
    from vf.framework import run_bounded
    maxn = 5 if chk.tier == "quick" else 7
    easy = [(0, 0), (1, 0), (0, 3), (3, 1), (2, 2)] if chk.tier == "quick" else [(0, 0), (1, 0), (0, 1), (0, 3), (3, 1), (2, 2), (3, 3), (7, 2)]
    items = []
    for pos, neg in B.order_types(maxn, min_pos=1, min_neg=1):
        tiefree = len(set(pos) | set(neg)) == len(pos) + len(neg)
        if not tiefree and len(pos) + len(neg) > 4:
            continue          # with ties only the zero-EER / range / cap clauses are claimed: small sizes suffice
        for ep, en in easy:
            for sc, ec in B.CONFIGS:
                items.append({"pos": pos, "neg": neg, "ep": ep, "en": en, "sc": sc, "ec": ec})
    chk.bounded["bound"] = f"all tie-free order types with both classes non-empty, pos+neg <= {maxn} (incl. perfectly separated and inverted), all order types with ties up to 4 scores; easy counts {easy}; 4 configurations; affine map 2s-3 and score reversal"
    chk.bounded["rule"] = "enumerated; non-trivial = not perfectly separated"
    chk.bounded["exhaustive"] = True
    run_bounded(chk, items, eval_items)
    chk.samples.append({"bounded-case": items[min(60, len(items) - 1)]})


def run(chk):
    prove(chk, build, replay=replay, parts=PARTS)
    bounded(chk)
    chk.extra["explanation"] = ("proved for all inputs: _find_root's loop invariant / strict-interior result / error path for an uninterpreted f; on every return path of eer(): "
                                "0<=e<=1, the hard-sample cap, the zero-EER clause against the decision rule, call-site pre-conditions, and that the threshold is threshold_at_fpr(e) or a symmetric form. "
                                "Bounded (exhaustive tie-free order types): FPR(t) and FNR(t) within one sample of e, affine and reversal equivariance.")
