"""C16 -- ROC confidence bands are well-formed envelopes of pointwise rectangles.

  binding      (structural) every call of _find_support_thresholds in roc_curve.py and experimental/roc_ci.py binds against its
               signature (all seven parameters)
  rule of 3    _apply_rule_of_three executed symbolically: row i is [alpha^(1/n), 1] if p_i > (n-1)/n, else [0, 1 - alpha^(1/n)] if
               p_i < 1/n, else the given interval; with p = k/n (k integer in [0,n]) it fires iff k = 0 resp. k = n (lemma)
  call sites   roc_with_ci / pointwise_band_ci executed against contracts (support thresholds, rates, bootstrap_ci): the n handed to
               the rule of three is the *denominator of the rate* (all positives / all negatives, easy samples included), p is the
               observed rate array and ci the matching bootstrap interval; the returned curve carries exactly the thresholds and rates
  envelope     _aggregate_rectangles executed symbolically (the loop over the points is a map loop over two arrays; np.min / np.max of a
               mask selection with initial value by contract): for every point j the band is <= / >= the point's own interval and the
               interval of every rectangle covering x_j, is attained by one of them, lower <= upper is preserved, [0,1] is preserved,
               shape (n, 2)
NaN-freeness, the identity-sampler closed form, fixed_width_band_ci's geometry and the ksone radius: bounded layer.
"""
import ast
import os

import numpy as np
from z3 import And, Array, BoolVal, ForAll, Function, If, Implies, Int, IntSort, Not, Or, Real, RealSort, ToReal

from vf import bounded as B
from vf import prims as P
from vf.common import multi_path_meta, mk_scores, new_exec, run_function
from vf.engine import Axis, Obj, Oblig, Path, T, same_size, toB, toI, toR
from vf.proof import prove

LEVEL = "other"


def build(sizes=None, only=None, part=None):
    obs = []
    if sizes is not None:
        return obs
    for fn in (build_binding, build_rule_of_three, build_call_sites, build_envelope):
        try:
            obs += fn()
        except Exception as e:
            if os.environ.get("VERIF_DEBUG"):
                import traceback
                traceback.print_exc()
            obs.append(Oblig(f"C16/{fn.__name__[6:]}/executes", [], BoolVal(False), "post", ("C16",), {"engine_error": f"{type(e).__name__}: {e}"}))
    return obs


def build_binding():
    obs = []
    ex = new_exec()
    fn = ex.funcs[("roc_curve", "_find_support_thresholds")]
    params = [a.arg for a in fn.args.args]
    ndef = len(fn.args.defaults)
    required = params[:len(params) - ndef] if ndef else params
    for mod in ("roc_curve", "roc_ci"):
        for node in ast.walk(ex.mods[mod]):
            if isinstance(node, ast.Call) and ((isinstance(node.func, ast.Name) and node.func.id == "_find_support_thresholds")
                                               or (isinstance(node.func, ast.Attribute) and node.func.attr == "_find_support_thresholds")):
                bound = set(params[:len(node.args)]) | {k.arg for k in node.keywords if k.arg}
                unknown = {k.arg for k in node.keywords if k.arg} - set(params)
                ok = set(required) <= bound and not unknown and len(node.args) <= len(params)
                obs.append(Oblig(f"C16/binding/_find_support_thresholds-call-binds[{mod}:{node.lineno}]", [], BoolVal(bool(ok)), "structural", ("C16",),
                                 {"missing": sorted(set(required) - bound), "unknown": sorted(unknown)}))
    if not obs:
        obs.append(Oblig("C16/binding/call-sites-found", [], BoolVal(False), "structural", ("C16",), {"engine_error": "no call site found"}))
    return obs


def build_rule_of_three():
    obs = []
    ex = new_exec()
    path = Path()
    n = Int("n_obs")
    alpha = Real("alpha")
    path.add(And(n >= 1, alpha > 0, alpha < 1))
    N = Axis("pts", Int("n_points"))
    Pp = Array("p_rate", IntSort(), RealSort())
    L, U = Array("ci_lo", IntSort(), RealSort()), Array("ci_hi", IntSort(), RealSort())
    p = T((N,), lambda i: Pp[toI(i)], prov="param:p")
    ci = T((N, Axis("2", 2)), lambda i, b: P.sel([L[toI(i)], U[toI(i)]], b), prov="param:ci")
    outs = run_function(ex, "roc_curve", "_apply_rule_of_three", [], {"p": p, "ci": ci, "alpha": alpha, "n": n}, path=path)
    ok = len(outs) == 1 and not outs[0].raised and isinstance(outs[0].value, T) and outs[0].value.ndim == 2 and outs[0].value.axes[1].size == 2
    obs.append(Oblig("C16/rule_of_three/returns-(n,2)-array", [], BoolVal(bool(ok)), "shape", ("C16",), multi_path_meta(outs)))
    if not ok:
        return obs
    r, hy = outs[0].value, outs[0].path.pc
    i = Int("i")
    pw = P.UF("pow", RealSort(), RealSort(), RealSort())
    root = pw(alpha, 1 / ToReal(n))
    pi = Pp[i]
    hi_c, lo_c = pi * ToReal(n) > ToReal(n) - 1, pi * ToReal(n) < 1
    lo_v, up_v = toR(r.elem(i, 0)), toR(r.elem(i, 1))
    hyi = hy + [0 <= i, i < toI(N.size)]
    obs.append(Oblig("C16/rule_of_three/row-is-upper-correction-iff-p>(n-1)/n", hyi, Implies(hi_c, And(lo_v == root, up_v == 1)), "post", ("C16",)))
    obs.append(Oblig("C16/rule_of_three/row-is-lower-correction-iff-p<1/n", hyi, Implies(And(Not(hi_c), lo_c), And(lo_v == 0, up_v == 1 - root)), "post", ("C16",)))
    obs.append(Oblig("C16/rule_of_three/otherwise-the-given-interval", hyi, Implies(And(Not(hi_c), Not(lo_c)), And(lo_v == L[i], up_v == U[i])), "post", ("C16",)))
    k = Int("k_count")
    obs.append(Oblig("C16/rule_of_three/lemma-fires-iff-the-observed-rate-is-exactly-0-or-1", [n >= 1, 0 <= k, k <= n],
                     And((ToReal(k) < 1) == (k == 0), (ToReal(k) > ToReal(n) - 1) == (k == n)), "lemma", ("C16",)))
    obs.append(Oblig("C16/rule_of_three/lemma-corrections-are-ordered-within-[0,1](pow contract)", [0 < root, root < 1], And(0 <= root, root <= 1, 0 <= 1 - root, 1 - root <= 1), "lemma", ("C16",)))
    for so in ex.obligs:
        so.id = f"C16/rule_of_three/safety:{so.id}"
        so.props = ("C16",)
        obs.append(so)
    return obs


def build_call_sites():
    obs = []
    for mod, fname in (("roc_curve", "roc_with_ci"), ("roc_ci", "pointwise_band_ci")):
        calls = {"r3": [], "agg": [], "fst": [], "bci": []}

        def c_fst(ex, path, *a, **kw):
            calls["fst"].append((a, kw))
            return P.mk_array(ex, path, "support_thr", None, prov="fresh")

        def rate(nm):
            def c(ex, path, self_, th):
                n = th.axes[0].size if isinstance(th, T) else None
                R = Array(f"{nm}_at!{next(ex.fresh)}", IntSort(), RealSort())
                t = T((Axis(nm, n),), lambda k, R=R: R[toI(k)], prov="fresh") if n is not None else Real(nm + "_scalar")
                calls.setdefault(nm, []).append((self_, th, t))
                return t
            return c

        def c_bci(ex, path, self_, metric=None, alpha=None, config=None, **kw):
            calls["bci"].append({"self": self_, "alpha": alpha, "config": config})
            Jf = Function("joint_ci", IntSort(), IntSort(), IntSort(), RealSort())
            return T((Axis("2", 2), Axis("pts", Int("npts_bci")), Axis("2", 2)), lambda a, i, b: Jf(toI(a), toI(i), toI(b)), prov="fresh")

        def c_r3(ex, path, p=None, ci=None, alpha=None, n=None):
            calls["r3"].append({"p": p, "ci": ci, "alpha": alpha, "n": n})
            return ci

        def c_agg(ex, path, x, dxp, dyp):
            calls["agg"].append((x, dxp, dyp))
            return dyp
        contracts = {("roc_curve", "_find_support_thresholds"): c_fst, ("Scores", "fnr"): rate("fnr"), ("Scores", "fpr"): rate("fpr"),
                     ("Scores", "bootstrap_ci"): c_bci, ("roc_curve", "_apply_rule_of_three"): c_r3, ("roc_curve", "_aggregate_rectangles"): c_agg}
        ex = new_exec(contracts=contracts)
        path = Path()
        me = mk_scores(ex, path, "pos", "pos", min_pos=1, min_neg=1)
        alpha = Real("alpha")
        cfg = Obj("BootstrapConfig", nb_samples=10, bootstrap_method="bca", sampling_method="dynamic", stratified_sampling=None, smoothing=False, ratio=None)
        tag = f"[{fname}]"
        outs = run_function(ex, mod, fname, [me], {"alpha": alpha, "config": cfg, "nb_points": 7}, path=path)
        ok = len(outs) == 1 and not outs[0].raised and isinstance(outs[0].value, Obj) and outs[0].value.cls == "ROCCurve"
        obs.append(Oblig(f"C16/call_sites/returns-ROCCurve{tag}", [], BoolVal(bool(ok)), "shape", ("C16",), multi_path_meta(outs)))
        if not ok:
            continue
        c = outs[0].value
        npos, nneg = toI(me.attrs["pos"].axes[0].size), toI(me.attrs["neg"].axes[0].size)
        ep, en = toI(me.attrs["nb_easy_pos"]), toI(me.attrs["nb_easy_neg"])
        fnr_calls, fpr_calls = calls.get("fnr", []), calls.get("fpr", [])
        okr = len(calls["fst"]) == 1 and fnr_calls and fpr_calls and fnr_calls[0][1] is fpr_calls[0][1] and c.attrs["thresholds"] is fnr_calls[0][1] \
            and c.attrs["fnr"] is fnr_calls[0][2] and c.attrs["fpr"] is fpr_calls[0][2]
        obs.append(Oblig(f"C16/call_sites/curve-carries-the-support-thresholds-and-the-object's-rates-at-them{tag}", [], BoolVal(bool(okr)), "structural", ("C16",)))
        r3 = calls["r3"]
        obs.append(Oblig(f"C16/call_sites/rule-of-three-applied-once-per-rate{tag}", [], BoolVal(len(r3) == 2), "structural", ("C16",)))
        if len(r3) == 2 and fnr_calls and fpr_calls:
            hy = outs[0].path.pc
            for call, rate_t, want_n, nm in ((r3[0], fnr_calls[0][2], npos + ep, "fnr"), (r3[1], fpr_calls[0][2], nneg + en, "fpr")):
                obs.append(Oblig(f"C16/call_sites/{nm}-rule-of-three-n-is-the-rate's-denominator(easy-samples-included){tag}", hy, toI(call["n"]) == want_n, "precondition", ("C16",),
                                 {"key": f"C16/call_sites/rule-of-three-n[{nm}]"}))
                obs.append(Oblig(f"C16/call_sites/{nm}-rule-of-three-gets-the-observed-rate-and-alpha{tag}", [], BoolVal(call["p"] is rate_t and call["alpha"] is alpha), "structural", ("C16",)))
        obs.append(Oblig(f"C16/call_sites/bootstrap_ci-on-the-scores-with-alpha-and-config{tag}", [], BoolVal(len(calls["bci"]) == 1 and calls["bci"][0]["self"] is me and calls["bci"][0]["alpha"] is alpha and calls["bci"][0]["config"] is cfg), "structural", ("C16",)))
        if fname == "roc_with_ci":
            obs.append(Oblig(f"C16/call_sites/bands-are-the-rectangle-envelopes{tag}", [], BoolVal(len(calls["agg"]) == 2), "structural", ("C16",)))
    return obs


def build_envelope():
    obs = []
    ex = new_exec()
    path = Path()
    n = Int("n_points")
    path.add(n >= 1)
    N = Axis("pts", n)
    Xa = Array("x_pts", IntSort(), RealSort())
    DX = Function("dxp", IntSort(), IntSort(), RealSort())
    DY = Function("dyp", IntSort(), IntSort(), RealSort())
    x = T((N,), lambda i: Xa[toI(i)], prov="param:x")
    dxp = T((Axis("pts", n), Axis("2", 2)), lambda i, b: DX(toI(i), toI(b)), prov="param:dxp")
    dyp = T((Axis("pts", n), Axis("2", 2)), lambda i, b: DY(toI(i), toI(b)), prov="param:dyp")
    outs = run_function(ex, "roc_curve", "_aggregate_rectangles", [x, dxp, dyp], {}, path=path)
    ok = len(outs) == 1 and not outs[0].raised and isinstance(outs[0].value, T) and outs[0].value.ndim == 2 and outs[0].value.axes[1].size == 2 and same_size(outs[0].value.axes[0].size, n)
    obs.append(Oblig("C16/envelope/returns-(n,2)-array", [], BoolVal(bool(ok)), "shape", ("C16",), multi_path_meta(outs)))
    if not ok:
        return obs
    ml = getattr(ex, "map_last", None)
    obs.append(Oblig("C16/envelope/loop-over-the-points-is-a-map-loop", [], BoolVal(ml is not None), "structural", ("C16",)))
    if ml is None:
        return obs
    j = ml["j"]
    r = outs[0].value
    hy = ml["path"].pc + [f for f in outs[0].path.pc]
    lo, up = toR(r.elem(j, 0)), toR(r.elem(j, 1))
    i = Int("i_rect")
    covers = And(0 <= i, i < n, DX(i, 0) <= Xa[j], Xa[j] <= DX(i, 1))
    obs.append(Oblig("C16/envelope/band-contains-the-point's-own-interval", hy, And(lo <= DY(j, 0), up >= DY(j, 1)), "post", ("C16",)))
    obs.append(Oblig("C16/envelope/band-contains-every-covering-rectangle", hy, Implies(covers, And(lo <= DY(i, 0), up >= DY(i, 1))), "post", ("C16",)))
    w1, w2 = Int("w1"), Int("w2")
    # attained: instantiate the witnesses of the np.min / np.max contracts (they are in the path facts)
    from z3 import Exists
    att_lo = Or(lo == DY(j, 0), Exists([w1], And(0 <= w1, w1 < n, DX(w1, 0) <= Xa[j], Xa[j] <= DX(w1, 1), lo == DY(w1, 0))))
    att_up = Or(up == DY(j, 1), Exists([w2], And(0 <= w2, w2 < n, DX(w2, 0) <= Xa[j], Xa[j] <= DX(w2, 1), up == DY(w2, 1))))
    obs.append(Oblig("C16/envelope/band-is-attained-by-a-covering-rectangle-or-the-own-interval", hy, And(att_lo, att_up), "post", ("C16",)))
    q = Int("q_all")
    ordered = ForAll([q], Implies(And(0 <= q, q < n), DY(q, 0) <= DY(q, 1)))
    inunit = ForAll([q], Implies(And(0 <= q, q < n), And(0 <= DY(q, 0), DY(q, 1) <= 1)))
    obs.append(Oblig("C16/envelope/lower<=upper-preserved", hy + [ordered], lo <= up, "post", ("C16",)))
    obs.append(Oblig("C16/envelope/[0,1]-preserved", hy + [ordered, inunit], And(0 <= lo, up <= 1), "post", ("C16",)))
    bad = [s for s in ex.stores if not (s[1] == "fresh" or s[1].startswith("view:fresh"))]
    obs.append(Oblig("C16/envelope/frame-inputs-not-modified", [], BoolVal(not bad), "frame", ("C16",), {"stores": [str(b) for b in bad]}))
    for so in ex.obligs:
        so.id = f"C16/envelope/safety:{so.id}#{len(obs)}"
        so.props = ("C16",)
        obs.append(so)
    return obs


# ----------------------------------------------------------------------------------------------------------------
def envelope_ref(x, dxp, dyp):
    lo, up = dyp[:, 0].copy(), dyp[:, 1].copy()
    for j in range(len(x)):
        ins = (dxp[:, 0] <= x[j]) & (x[j] <= dxp[:, 1])
        lo[j] = min(lo[j], dyp[ins, 0].min(initial=lo[j]))
        up[j] = max(up[j], dyp[ins, 1].max(initial=up[j]))
    return np.stack([lo, up], axis=-1)


def rule3_ref(p, ci, alpha, k, n):
    out = np.array(ci, dtype=float).copy()
    for i in range(len(p)):
        if k[i] == n:
            out[i] = [alpha ** (1 / n), 1.0]
        elif k[i] == 0:
            out[i] = [0.0, 1 - alpha ** (1 / n)]
    return out


def oracle(case):
    from vf.framework import real_repo
    sa = real_repo()
    from score_analysis import BootstrapConfig, Scores, roc_with_ci
    from score_analysis.experimental.roc_ci import fixed_width_band_ci, pointwise_band_ci, simultaneous_joint_region_ci
    rng = np.random.RandomState(case["seed"])
    npos, nneg = case["npos"], case["nneg"]
    pos = rng.normal(case.get("sep", 1.0), 1.0, size=npos) if not case.get("ties") else rng.choice([0.0, 0.5, 1.0, 1.5], size=npos)
    neg = rng.normal(0.0, 1.0, size=nneg) if not case.get("ties") else rng.choice([0.0, 0.5, 1.0], size=nneg)
    if case.get("separated"):
        pos = pos + 20.0
    s = Scores(pos, neg, nb_easy_pos=case.get("ep", 0), nb_easy_neg=case.get("en", 0), score_class=case["sc"], equal_class=case["ec"])
    info = f"[{case}]"
    alpha = case["alpha"]
    kw = dict(case["support"])
    for k_ in ("fnr", "fpr", "thresholds"):
        if k_ in kw:
            kw[k_] = np.array(kw[k_], dtype=float)
    fn = {"roc_with_ci": roc_with_ci, "fixed": fixed_width_band_ci, "joint": simultaneous_joint_region_ci, "pointwise": pointwise_band_ci}[case["fn"]]
    sampler = (lambda o: o) if case["sampler"] == "identity" else case["sampler"]
    cfg = BootstrapConfig(nb_samples=case.get("nb", 25), sampling_method=sampler, stratified_sampling=case.get("strat"), bootstrap_method=case["method"])
    np.random.seed(case["seed"] + 5)
    import warnings
    with warnings.catch_warnings(), np.errstate(all="ignore"):
        warnings.simplefilter("ignore")
        c = fn(s, alpha=alpha, config=cfg, **kw)
    th = np.asarray(c.thresholds)
    n = len(th)
    if not (np.array_equal(c.fnr, s.fnr(th), equal_nan=True) and np.array_equal(c.fpr, s.fpr(th), equal_nan=True)):
        return f"{case['fn']}: rates do not match the thresholds {info}"
    for nm in ("fnr_ci", "fpr_ci"):
        b = np.asarray(getattr(c, nm))
        if b.shape != (n, 2):
            return f"{case['fn']}: {nm} has shape {b.shape}, expected {(n, 2)} {info}"
        if np.isnan(b).any():
            return f"{case['fn']}: {nm} contains NaN {info}"
        if np.any(b[:, 0] > b[:, 1] + 1e-12):
            return f"{case['fn']}: {nm} lower > upper {info}"
        if case["fn"] == "roc_with_ci" and (np.any(b < -1e-12) or np.any(b > 1 + 1e-12)):
            return f"roc_with_ci: {nm} leaves [0,1] {info}"
    if case["fn"] in ("roc_with_ci", "pointwise") and case["sampler"] == "identity":
        # closed form: pointwise interval = [rate, rate] except rule of three at exactly 0 / 1; band = envelope of the rectangles
        cm = np.asarray(s.cm(th).matrix)
        fn_k, fp_k = cm[:, 0, 1], cm[:, 1, 0]
        P_, N_ = s.nb_all_pos, s.nb_all_neg
        # the bootstrapped metric is the rate at the threshold re-derived from the *other* rate (within one sample of the observed rate);
        # under the identity sampler every replicate equals its value on the original object
        g_fnr = np.asarray(s.fnr(s.threshold_at_fpr(np.asarray(c.fpr))), dtype=float)
        g_fpr = np.asarray(s.fpr(s.threshold_at_fnr(np.asarray(c.fnr))), dtype=float)
        fnr_pt = rule3_ref(c.fnr, np.stack([g_fnr, g_fnr], -1), alpha, fn_k, P_)
        fpr_pt = rule3_ref(c.fpr, np.stack([g_fpr, g_fpr], -1), alpha, fp_k, N_)
        if case["fn"] == "pointwise":
            exp_fnr, exp_fpr = fnr_pt, fpr_pt
        else:
            exp_fpr = envelope_ref(np.asarray(c.fnr), fnr_pt, fpr_pt)
            exp_fnr = envelope_ref(np.asarray(c.fpr), fpr_pt, fnr_pt)
        if not (np.allclose(c.fnr_ci, exp_fnr, rtol=0, atol=1e-12) and np.allclose(c.fpr_ci, exp_fpr, rtol=0, atol=1e-12)):
            bad = int(np.argmax(np.any(np.abs(np.asarray(c.fnr_ci) - exp_fnr) > 1e-12, axis=1) | np.any(np.abs(np.asarray(c.fpr_ci) - exp_fpr) > 1e-12, axis=1)))
            return (f"{case['fn']} under the identity sampler: band at point {bad} (threshold {th[bad]!r}, fnr {c.fnr[bad]!r}, fpr {c.fpr[bad]!r}) is fnr_ci={np.asarray(c.fnr_ci)[bad].tolist()} "
                    f"fpr_ci={np.asarray(c.fpr_ci)[bad].tolist()}, closed form fnr_ci={exp_fnr[bad].tolist()} fpr_ci={exp_fpr[bad].tolist()} {info}")
    return None


def replay(case):
    return oracle(case)


def eval_items(items):
    counts, viols = {"bands": [0, 0]}, []
    for case in items:
        try:
            res = oracle(case)
        except Exception as e:
            res = f"{case['fn']} raised {type(e).__name__}: {e} for {case}"
        counts["bands"][0] += 1
        counts["bands"][1] += 1
        if res:
            viols.append(("bands", f"C16/bounded/{case['fn']}:{' '.join(res.split(' ')[1:5])[:50]}", res, B.jsonable(case)))
    return counts, viols, []


def bounded(chk):
    from vf.framework import run_bounded
    items = []
    supports = [{"nb_points": None}, {"nb_points": 9}, {"fnr": [0.1, 0.5]}, {"fpr": [0.0, 0.3, 1.0]}, {"thresholds": [0.2, 0.9]}, {"fnr": [0.3], "fpr": [0.2], "thresholds": [0.5]}]
    full = [{"nb_points": None}, {"nb_points": 9}]
    for seed in range(2 if chk.tier == "quick" else 6):
        for sc, ec in (("pos", "pos"), ("neg", "neg"), ("pos", "neg")):
            for (npos, nneg, ep, en) in ((4, 3, 0, 0), (8, 12, 0, 0), (2, 3, 10, 0), (6, 5, 0, 4), (30, 25, 0, 0)):
                for method in ("quantile", "bca"):
                    base = {"npos": npos, "nneg": nneg, "ep": ep, "en": en, "sc": sc, "ec": ec, "alpha": 0.05 if seed % 2 == 0 else 0.2, "method": method, "seed": chk.seed * 100 + seed}
                    for sup in supports:
                        items.append(dict(base, fn="roc_with_ci", sampler="identity", support=sup))
                        items.append(dict(base, fn="pointwise", sampler="identity", support=sup))
                    for sup in supports[:3]:
                        for smp, strat in (("replacement", None), ("dynamic", "by_label"), ("single_pass", None)):
                            items.append(dict(base, fn="roc_with_ci", sampler=smp, strat=strat, support=sup, nb=15))
                    if ep == 0 and en == 0:
                        for sup in full:
                            items.append(dict(base, fn="fixed", sampler="replacement", support=sup, nb=15))
                        for sup in supports[:4]:
                            items.append(dict(base, fn="joint", sampler="replacement", support=sup, nb=5))
                            items.append(dict(base, fn="pointwise", sampler="replacement", support=sup, nb=15))
            # the whole documented alpha range (0,1) for every band function
            for al in (0.01, 0.5, 0.7, 0.95):
                b2 = {"npos": 9, "nneg": 7, "ep": 0, "en": 0, "sc": sc, "ec": ec, "alpha": al, "method": "quantile", "seed": chk.seed * 100 + seed}
                items.append(dict(b2, fn="roc_with_ci", sampler="identity", support={"nb_points": None}))
                items.append(dict(b2, fn="roc_with_ci", sampler="replacement", support={"nb_points": 9}, nb=15))
                items.append(dict(b2, fn="fixed", sampler="replacement", support={"nb_points": 9}, nb=15))
                items.append(dict(b2, fn="joint", sampler="replacement", support={"nb_points": 9}, nb=5))
                items.append(dict(b2, fn="pointwise", sampler="replacement", support={"nb_points": 9}, nb=15))
            items.append({"npos": 5, "nneg": 6, "sc": sc, "ec": ec, "alpha": 0.1, "method": "quantile", "seed": chk.seed * 100 + seed, "ties": True, "fn": "roc_with_ci", "sampler": "identity", "support": {"nb_points": None}})
            items.append({"npos": 5, "nneg": 6, "sc": sc, "ec": ec, "alpha": 0.1, "method": "bc", "seed": chk.seed * 100 + seed, "separated": sc == "pos", "fn": "roc_with_ci", "sampler": "identity", "support": {"nb_points": 6}})
    chk.bounded["bound"] = "2..30 scores per class (with and without easy samples, ties, separated classes), 3 configurations, 6 support combinations, alpha 0.05 / 0.2 (and 0.01, 0.5, 0.7, 0.95 for every band function), quantile / bc / bca, identity sampler (closed form: rule of three + envelope) and built-in samplers; the three experimental band functions on their documented supports"
    chk.bounded["rule"] = "seeded grid"
    run_bounded(chk, items, eval_items)
    chk.samples.append({"bounded-case": items[3]})


def run(chk):
    prove(chk, build, replay=replay)
    bounded(chk)
    chk.extra["explanation"] = ("proved for all inputs: call binding of _find_support_thresholds, the rule-of-three function and its trigger lemma, the arguments handed to it by roc_with_ci / "
                                "pointwise_band_ci (n = rate denominator), the envelope contract of _aggregate_rectangles (map loop, min/max contracts). Bounded: NaN-freeness, ordering, [0,1], "
                                "the identity-sampler closed form end to end, and the experimental band functions (np.interp geometry, ksone).")
