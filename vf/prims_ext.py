"""Further primitive contracts (pandas, RNG, misc); registered on import."""
from z3 import And, BoolSort, ForAll, If, Implies, Int, IntSort, IntVal, Not, Or, Real, RealSort, RealVal, ToReal

from .engine import (FV, INF, NINF, UF, Axis, EnumVal, Obj, T, Unsupported, b_and, b_not, b_or, boollike, intlike,
                     is_scalar, is_sym, ite, lift, pyint, toB, toI, toR)
from .prims import PRIMS, as_tensor, from_list, items_of, mk_array, prim, sel


@prim("pd.DataFrame", is_property=False)
def p_dataframe(ex, path, *a, **k):
    raise Unsupported("pandas DataFrame construction")


PRIMS["pd.DataFrame"] = ("pdDataFrame",)
PRIMS["Iterable"] = ("Iterable",)


# ---- mutating methods: logged for the frame analysis (DESIGN 5.3); the value model treats them as no-ops on purpose,
# because the frame obligation fails as soon as one of them touches an array that is not fresh
def _mutator(name):
    def f(ex, path, x, *a, **k):
        prov = x.prov if isinstance(x, T) else "scalar"
        ex.stores.append((f"in-place {name}", prov, 0))
        if prov == "fresh" or prov.startswith("view:fresh"):
            raise Unsupported(f"in-place {name} on a fresh array (value model missing)")
        return None
    return f


for _n in ("sort", "fill", "resize", "put", "partition", "itemset"):
    prim("ndarray." + _n)(_mutator(_n))
