"""C03 -- extreme operating points are honoured exactly.

For every metric m in {tpr,fnr,tnr,fpr,topr,tonr}, configuration, method:  r <= 0  =>  count_m(th) = lowest achievable,
r >= 1  =>  count_m(th) = highest achievable, where count_m is given by the documented decision rule (spec), th is the value
returned by the real threshold_at_m(r, method=..) executed symbolically (inlined through _threshold_at_ratio and
_invert_increasing_function), for score arrays of unbounded length and symbolic easy counts.
"""
import numpy as np
from z3 import And, BoolVal, Implies, Not, Or

from vf import bounded as B
from vf import prims as P
from vf.engine import Oblig
from vf.proof import prove
from props import thr as TH

LEVEL = "proof"


PARTS = TH.METRICS + ["misc"]


def build(sizes=None, only=None, part=None):
    from props import thr2
    obs = thr2.build(sizes, only, ("C03",), part)
    if sizes is None and only is None and part in (None, "misc"):
        # "the metric equals exactly its lowest / highest achievable value for that Scores object": Scores.cm's cell contract (C01's)
        # is re-discharged here so that the count-space clauses carry over to the object's own metric inside this check
        from props import c01
        obs += c01.build_cm(None, "C03")
    return obs


def oracle(case):
    s = TH.real_scores(case)
    r = case["r"]
    th = getattr(s, "threshold_at_" + case["metric"])(r, method=case["method"])
    n_rel, n_all, lo, hi = TH.pop_info(case)
    got = TH.counts_at(case, th)
    want = lo if r <= 0 else (hi if r >= 1 else None)
    if want is None:
        return None
    # the metric "as computed by the same Scores object" must agree with the count by the documented rule
    lib = float(getattr(s, case["metric"])(th))
    if got == want and abs(lib - want / n_all) > 1e-12:
        return (f"threshold_at_{case['metric']}({r!r}, method={case['method']!r}) = {th!r}: the object's own {case['metric']} there is {lib!r} but the decision rule gives "
                f"{want}/{n_all}  [pos={case['pos']}, neg={case['neg']}, easy=({case['ep']},{case['en']}), {case['sc']}/{case['ec']}, dtype={case.get('dtype', 'float64')}]")
    if got != want:
        real = getattr(s, case["metric"])(th)
        return (f"threshold_at_{case['metric']}({r!r}, method={case['method']!r}) = {th!r}: metric count {got}/{n_all} (library says {real!r}) "
                f"but the {'lowest' if r <= 0 else 'highest'} achievable is {want}/{n_all}  [pos={case['pos']}, neg={case['neg']}, easy=({case['ep']},{case['en']}), {case['sc']}/{case['ec']}]")
    return None


def oracle_array(case):
    s = TH.real_scores(case)
    rs = np.array(case["r_array"], dtype=float)
    ths = np.asarray(getattr(s, "threshold_at_" + case["metric"])(rs, method=case["method"]))
    if ths.shape != rs.shape:
        return f"threshold_at_{case['metric']}(array of shape {rs.shape}) has shape {ths.shape}"
    n_rel, n_all, lo, hi = TH.pop_info(case)
    for r, th in zip(rs, ths):
        want = lo if r <= 0 else (hi if r >= 1 else None)
        if want is not None and TH.counts_at(case, th) != want:
            return (f"threshold_at_{case['metric']}({rs.tolist()}, method={case['method']!r})[target {r}] = {th!r}: metric count {TH.counts_at(case, th)}/{n_all} but the "
                    f"{'lowest' if r <= 0 else 'highest'} achievable is {want}/{n_all}  [pos={case['pos']}, neg={case['neg']}, easy=({case['ep']},{case['en']}), {case['sc']}/{case['ec']}]")
    return None


def replay(case):
    return oracle_array(case) if "r_array" in case else oracle(case)


TARGETS = [-0.5, 0.0, -0.0, 1.0, 1.5]


def eval_items(items):
    counts, viols = {"extreme": [0, 0]}, []
    for pos, neg, ep, en in items:
        dtn = None
        if isinstance(ep, str):          # dtype variant: (pos, neg, dtype-name, 0)
            dtn, ep, en = ep, 0, 0
        for sc, ec in B.CONFIGS:
            for metric in TH.METRICS:
                base = {"clause": "extreme", "pos": pos, "neg": neg, "ep": ep, "en": en, "sc": sc, "ec": ec, "metric": metric}
                if dtn:
                    base["dtype"] = dtn
                if TH.pop_info(base)[0] == 0:
                    continue
                for method in TH.METHODS:
                    for r in TARGETS:
                        case = dict(base, method=method, r=r)
                        if pos and isinstance(pos[0], int) or neg and isinstance(neg[0], int):
                            case["int"] = True
                        res = oracle(case)
                        counts["extreme"][0] += 1
                        counts["extreme"][1] += 1
                        if res:
                            end = "low" if r <= 0 else "high"
                            viols.append(("extreme", f"C03/{metric}/extreme-{end}[{sc},{ec}]", res, B.jsonable(case)))
                    # one call with an array of targets holding both ends (and interior values)
                    case = dict(base, method=method, r_array=[1.5, 0.0, 0.5, 1.0, -0.5])
                    res = oracle_array(case)
                    counts["extreme"][0] += 1
                    counts["extreme"][1] += 1
                    if res:
                        viols.append(("extreme", f"C03/{metric}/extreme-array-targets[{sc},{ec}]", res, B.jsonable(case)))
    return counts, viols, []


def eval_sweep(items):
    counts, viols = {"extreme-rounding-sweep": [0, 0]}, []
    for _, n, e in items:
        pos = [float(k) for k in range(1, n + 1)]
        neg = [float(k) + 0.5 for k in range(1, n + 1)]
        for ep, en in ((e, 0), (0, e), (e, e)) if e else ((0, 0),):
            for sc, ec in B.CONFIGS:
                for metric in TH.METRICS:
                    for r in (0.0, 1.0):
                        case = {"clause": "extreme", "pos": pos, "neg": neg, "ep": ep, "en": en, "sc": sc, "ec": ec, "metric": metric, "method": "linear", "r": r}
                        res = oracle(case)
                        counts["extreme-rounding-sweep"][0] += 1
                        counts["extreme-rounding-sweep"][1] += 1
                        if res:
                            viols.append(("extreme", f"C03/{metric}/extreme-{'low' if r <= 0 else 'high'}[{sc},{ec}]", res, B.jsonable(case)))
    return counts, viols, []


def bounded(chk):
    from vf.framework import run_bounded
    maxn = 4 if chk.tier == "quick" else 6
    easy = [(0, 0), (2, 0), (0, 3), (1, 2)] if chk.tier == "quick" else [(0, 0), (1, 0), (0, 1), (2, 0), (0, 3), (1, 2), (3, 3), (11, 0), (0, 20), (6, 0), (0, 23)]
    chk.bounded["bound"] = f"all order types of pos+neg <= {maxn} scores (values 1,2,.. and shifted by -10), easy counts {easy}, 4 configurations, 6 metrics, 3 methods, targets {TARGETS}"
    chk.bounded["rule"] = "enumerated; a case is non-trivial when the relevant class has at least one score"
    chk.bounded["exhaustive"] = True
    items = []
    for pos, neg in B.order_types(maxn):
        for sh in (0.0, -10.0):
            if sh and len(pos) + len(neg) > 3 and chk.tier == "quick":
                continue
            for ep, en in easy:
                items.append(([v + sh for v in pos], [v + sh for v in neg], ep, en))
            if len(pos) + len(neg) <= 3:
                # integer-dtype score arrays (the sentinels must still be floats one ulp outside the range)
                items.append(([int(v + sh) for v in pos], [int(v + sh) for v in neg], 0, 0))
                # narrow float dtypes: the float64 sentinel must not be rounded back onto the extreme score by the metric
                for dtn in ("float32", "float16"):
                    items.append(([v + sh for v in pos], [v + sh for v in neg], dtn, 0))
    run_bounded(chk, items, eval_items)
    # float sweep of the easy-sample rescaling at the exact end targets (the proof layer is exact-real and cannot see rounding)
    nmax, emax = (8, 32) if chk.tier == "quick" else (16, 64)
    sweep = []
    for n in range(1, nmax + 1):
        for e in range(0, emax + 1):
            sweep.append(("sweep", n, e))
    run_bounded(chk, sweep, eval_sweep)
    chk.bounded["bound"] += "; integer, float32 and float16 score arrays (<= 3 scores)"
    chk.bounded["bound"] += f"; rounding sweep: 1..{nmax} distinct scores per class x easy counts 0..{emax} (one class or both), r in {{0,1}}, 6 metrics, 4 configurations"
    chk.samples.append({"bounded-case": {"pos": [-9.0], "neg": [-8.0, -7.0, -7.0], "easy": [0, 3], "config": ["neg", "neg"], "metric": "tnr", "method": "lower", "r": 1.0}})


def run(chk):
    prove(chk, build, ground_sizes=[(1, 1, 0, 0), (1, 1, 2, 3), (2, 1, 0, 0), (1, 2, 0, 0), (2, 2, 1, 1), (2, 1, 2, 0), (1, 2, 0, 3)], replay=replay, parts=PARTS)
    bounded(chk)
