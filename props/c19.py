"""C19 -- FraudScores is a faithful, validated genuine/fraud view of Scores.

  __init__       executed symbolically (through super().__init__): pos/neg are the sorted genuines/frauds (multiset preserved), easy
                 counts forwarded, score_class translated, equal_class = pos; ValueError on exactly the paths where some score is
                 < 0 or > 1 (np.any contract), no raise when all scores lie in [0,1]; the median heuristic only warns
  structure      the class defines only __init__, from_labels and the genuines / frauds properties (+ setters): every query is Scores'
                 own code running on equal state -- this is the equivalence claim
  translations   doc_to_binary_label / binary_to_doc_label evaluated on all enum members and their string values: mutually inverse
  from_labels    splits by == genuine_label (mask selection) and forwards everything to the constructor
Run-time equivalence of every query with a plain Scores object: bounded layer.
"""
import ast
import os

import numpy as np
from z3 import And, BoolVal, Implies, Int, Not, Or, Real

from vf import bounded as B
from vf import prims as P
from vf.common import label, new_exec, run_method
from vf.engine import EnumVal, Obj, Oblig, Path, T, toI, toR
from vf.proof import prove

LEVEL = "proof"


def build(sizes=None, only=None, part=None):
    obs = []
    if sizes is not None:
        return obs
    for fn in (build_init, build_structure, build_translations, build_from_labels):
        try:
            obs += fn()
        except Exception as e:
            if os.environ.get("VERIF_DEBUG"):
                import traceback
                traceback.print_exc()
            obs.append(Oblig(f"C19/{fn.__name__[6:]}/executes", [], BoolVal(False), "post", ("C19",), {"engine_error": f"{type(e).__name__}: {e}"}))
    return obs


def build_init():
    obs = []
    for sclass in ("genuine", "fraud"):
        ex = new_exec()
        path = Path()
        gen = P.mk_array(ex, path, "genuines", None, prov="param:genuines")
        fra = P.mk_array(ex, path, "frauds", None, prov="param:frauds")
        eg, ef = Int("nb_easy_genuines"), Int("nb_easy_frauds")
        obj = Obj("FraudScores")
        outs = run_method(ex, "FraudScores", "__init__", obj, [], {"genuines": gen, "frauds": fra, "nb_easy_genuines": eg, "nb_easy_frauds": ef, "score_class": sclass}, path=path)
        tag = f"[score_class={sclass}]"
        ok_paths = [o for o in outs if not o.raised]
        # raising paths: in __init__ itself, or in a helper it calls (recorded by the engine with their path condition)
        err = [(o.path.pc, o.value, o.env["self"]) for o in outs if o.raised] + [(pc, exc, obj) for pc, exc in ex.raises]

        def ob(name, goal, hyps, kind="post", meta=None):
            obs.append(Oblig(f"C19/__init__/{name}{tag}", hyps, goal, kind, ("C19",), dict({"key": f"C19/__init__/{name}"}, **(meta or {}))))
        ob("has-normal-and-raising-paths", BoolVal(len(ok_paths) >= 1 and len(err) >= 1), [], "post", {"paths": len(outs)})
        ng, nf = toI(gen.axes[0].size), toI(fra.axes[0].size)
        k = ex.new_int("k")
        for pi_, o in enumerate(ok_paths):
            so, hy = o.env["self"], o.path.pc
            pt = f"/path{pi_}"
            pos, neg = so.attrs.get("pos"), so.attrs.get("neg")
            okk = isinstance(pos, T) and isinstance(neg, T)
            ob(f"pos/neg-are-arrays{pt}", BoolVal(bool(okk)), [], "shape")
            if not okk:
                continue
            v = Real("v")
            ob(f"pos=sorted-genuines,neg=sorted-frauds(multisets){pt}", And(pos.facts["cnt"](v, True) == gen.facts["cnt"](v, True), pos.facts["cnt"](v, False) == gen.facts["cnt"](v, False),
                                                                          neg.facts["cnt"](v, True) == fra.facts["cnt"](v, True), neg.facts["cnt"](v, False) == fra.facts["cnt"](v, False),
                                                                          BoolVal(pos.facts.get("sorted") is True and neg.facts.get("sorted") is True)), hy)
            ob(f"easy-counts-forwarded{pt}", And(toI(so.attrs.get("nb_easy_pos")) == eg, toI(so.attrs.get("nb_easy_neg")) == ef), hy)
            ob(f"score_class-translated-equal_class-pos{pt}", BoolVal(so.attrs.get("score_class") == label(ex, "pos" if sclass == "genuine" else "neg") and so.attrs.get("equal_class") == label(ex, "pos")), [], "post")
            # no raise => every score within [0,1]
            ob(f"accepted-only-if-all-genuine-scores-in-[0,1]{pt}", Implies(And(0 <= k, k < ng), And(toR(pos.elem(k)) >= 0, toR(pos.elem(k)) <= 1)), hy)
            ob(f"accepted-only-if-all-fraud-scores-in-[0,1]{pt}", Implies(And(0 <= k, k < nf), And(toR(neg.elem(k)) >= 0, toR(neg.elem(k)) <= 1)), hy)
        for pi_, (epc, exc, so) in enumerate(err):
            # raise => ValueError and some score outside [0,1]: the path condition carries the witness of np.any
            pos, neg = so.attrs.get("pos"), so.attrs.get("neg")
            if not (isinstance(pos, T) and isinstance(neg, T)):
                ob(f"raises-ValueError/path{pi_}", BoolVal(False), [], "post", {"engine_error": "state at the raise not recognised"})
                continue
            w1, w2 = ex.new_int("w1"), ex.new_int("w2")
            ob(f"raises-ValueError/path{pi_}", BoolVal("ValueError" in str(getattr(exc, "exc", exc))), [], "post")
            allin = And(Implies(And(0 <= w1, w1 < ng), And(toR(pos.elem(w1)) >= 0, toR(pos.elem(w1)) <= 1)), Implies(And(0 <= w2, w2 < nf), And(toR(neg.elem(w2)) >= 0, toR(neg.elem(w2)) <= 1)))
            # "not all in range": refute that both generic elements are in range for *all* w -- stated as: the hypotheses are
            # inconsistent with every score being in range
            from z3 import ForAll
            i = Int("i!all")
            every = And(ForAll([i], Implies(And(0 <= i, i < ng), And(toR(pos.elem(i)) >= 0, toR(pos.elem(i)) <= 1))), ForAll([i], Implies(And(0 <= i, i < nf), And(toR(neg.elem(i)) >= 0, toR(neg.elem(i)) <= 1))))
            ob(f"raises-only-if-some-score-outside-[0,1]/path{pi_}", Not(every), list(epc))
        for s_ in ex.obligs:
            s_.id = f"C19/__init__/safety:{s_.id}#{len(obs)}{tag}"
            s_.props = ("C19",)
            obs.append(s_)
    return obs


def build_structure():
    ex = new_exec()
    node = ex.classes["FraudScores"]
    names = sorted({f.name for f in node.body if isinstance(f, ast.FunctionDef)})
    base_ok = [b.id for b in node.bases if isinstance(b, ast.Name)] == ["Scores"]
    obs = [Oblig("C19/structure/subclass-of-Scores", [], BoolVal(base_ok), "structural", ("C19",)),
           Oblig("C19/structure/overrides-no-query-method(only __init__, from_labels, genuines, frauds)", [], BoolVal(set(names) <= {"__init__", "from_labels", "genuines", "frauds"}), "structural", ("C19",), {"defined": names})]
    # genuines / frauds alias pos / neg
    path = Path()
    a, b = P.mk_array(ex, path, "p", None), P.mk_array(ex, path, "n", None)
    o = Obj("FraudScores", pos=a, neg=b)
    obs.append(Oblig("C19/structure/genuines-is-pos,frauds-is-neg", [], BoolVal(ex.getattr(o, "genuines", path) is a and ex.getattr(o, "frauds", path) is b), "post", ("C19",)))
    return obs


def build_translations():
    ex = new_exec()
    path = Path()
    obs = []
    d2b = lambda v: ex.apply(("func", "doc_fraud", "doc_to_binary_label"), [v], {}, path)
    b2d = lambda v: ex.apply(("func", "doc_fraud", "binary_to_doc_label"), [v], {}, path)
    dm = {m.name: m for m in ex.enum_members("DocLabel")}
    bm = {m.name: m for m in ex.enum_members("BinaryLabel")}
    ok1 = d2b("genuine") == bm["pos"] and d2b("fraud") == bm["neg"] and d2b(dm["pos"]) == bm["pos"] and d2b(dm["neg"]) == bm["neg"]
    ok2 = b2d("pos") == dm["pos"] and b2d("neg") == dm["neg"] and b2d(bm["pos"]) == dm["pos"] and b2d(bm["neg"]) == dm["neg"]
    inv = all(b2d(d2b(m)) == m for m in dm.values()) and all(d2b(b2d(m)) == m for m in bm.values())
    obs.append(Oblig("C19/translations/genuine<->pos,fraud<->neg", [], BoolVal(bool(ok1 and ok2)), "post", ("C19",)))
    obs.append(Oblig("C19/translations/mutually-inverse", [], BoolVal(bool(inv)), "post", ("C19",)))
    return obs


def build_from_labels():
    obs = []
    ex = new_exec()
    path = Path()
    from z3 import Array, IntSort
    from vf.engine import Axis
    sc = P.mk_array(ex, path, "scores_arg", None, prov="param:scores")
    LB = Array("labels_arg", IntSort(), IntSort())
    labels = T((Axis("L", sc.axes[0].size),), lambda k: LB[toI(k)], kind="int", prov="param:labels")
    gl = Int("genuine_label")
    seen = {}

    def c_new(ex_, p_, **kw):
        seen.update(kw)
        return Obj("FraudScores", marker=True)
    ex.contracts[("FraudScores", "__new__")] = c_new
    owner, fn = ex.find("FraudScores", "from_labels")
    res = ex.call_node(owner, fn, [labels, sc], {"genuine_label": gl, "nb_easy_genuines": 3, "nb_easy_frauds": 4, "score_class": "fraud"}, path)
    okc = isinstance(res, Obj) and seen.get("nb_easy_genuines") == 3 and seen.get("nb_easy_frauds") == 4 and seen.get("score_class") == "fraud"
    obs.append(Oblig("C19/from_labels/forwards-counts-and-score_class-to-the-constructor", [], BoolVal(bool(okc)), "post", ("C19",)))
    k = ex.new_int("k")
    n = toI(sc.axes[0].size)
    for nm, want_eq in (("genuines", True), ("frauds", False)):
        a = seen.get(nm)
        sel = getattr(a, "select_of", None) if isinstance(a, T) else None
        if sel is None:
            obs.append(Oblig(f"C19/from_labels/{nm}-is-a-selection-of-the-scores", [], BoolVal(False), "post", ("C19",), {"engine_error": "no selection witness"}))
            continue
        src, mask, sigma, rho, m = sel
        lab_ok = (LB[sigma(k)] == gl) if want_eq else (LB[sigma(k)] != gl)
        obs.append(Oblig(f"C19/from_labels/{nm}-are-exactly-the-scores-with-{'the' if want_eq else 'another'}-label(soundness)", path.pc, Implies(And(0 <= k, k < m), And(lab_ok, toR(a.elem(k)) == toR(sc.elem(sigma(k))))), "post", ("C19",)))
        lab_k = (LB[k] == gl) if want_eq else (LB[k] != gl)
        obs.append(Oblig(f"C19/from_labels/{nm}-completeness", path.pc, Implies(And(0 <= k, k < n, lab_k), And(0 <= rho(k), rho(k) < m, toR(a.elem(rho(k))) == toR(sc.elem(k)))), "post", ("C19",)))
    return obs


# ----------------------------------------------------------------------------------------------------------------
def oracle(case):
    from vf.framework import real_repo
    sa = real_repo()
    from score_analysis.applications.doc_fraud import FraudScores
    import warnings
    gen, fra = np.array(case["gen"], dtype=float), np.array(case["fra"], dtype=float)
    scl = case["score_class"]
    bad = bool(np.any(gen < 0) or np.any(gen > 1) or np.any(fra < 0) or np.any(fra > 1))
    info = f"[{case}]"
    with warnings.catch_warnings():
        warnings.simplefilter("ignore")
        try:
            f = FraudScores(genuines=gen, frauds=fra, nb_easy_genuines=case["eg"], nb_easy_frauds=case["ef"], score_class=scl)
            raised = False
        except ValueError:
            raised = True
    if raised != bad:
        return f"construction {'raised' if raised else 'did not raise'} ValueError although {'no' if not bad else 'some'} score lies outside [0,1] {info}"
    if raised:
        return None
    s = sa.Scores(gen, fra, nb_easy_pos=case["eg"], nb_easy_neg=case["ef"], score_class="pos" if scl == "genuine" else "neg", equal_class="pos")
    if not (np.array_equal(f.genuines, s.pos) and np.array_equal(f.frauds, s.neg) and f.genuines is f.pos and f.frauds is f.neg):
        return f"genuines/frauds are not the positive/negative scores {info}"
    t = B.thresholds_for(list(gen) + list(fra))
    r = np.array([-0.1, 0.0, 0.3, 0.5, 0.9, 1.0, 1.2])
    with np.errstate(all="ignore"):
        if not np.array_equal(np.asarray(f.cm(t).matrix), np.asarray(s.cm(t).matrix)):
            return f"cm differs from the underlying Scores {info}"
        for q in ("tpr", "fnr", "tnr", "fpr", "topr", "tonr", "far", "frr"):
            if not np.array_equal(getattr(f, q)(t), getattr(s, q)(t), equal_nan=True):
                return f"{q} differs from the underlying Scores {info}"
        for m in ("tpr", "fnr", "tnr", "fpr", "topr", "tonr"):
            if (m in ("tpr", "fnr") and len(gen) == 0) or (m in ("tnr", "fpr") and len(fra) == 0) or len(gen) + len(fra) == 0:
                continue
            for meth in ("linear", "lower", "higher"):
                if not np.array_equal(getattr(f, "threshold_at_" + m)(r, method=meth), getattr(s, "threshold_at_" + m)(r, method=meth)):
                    return f"threshold_at_{m}({meth}) differs from the underlying Scores {info}"
        # every remaining public query of Scores runs on a FraudScores object as it does on the equivalent Scores object
        try:
            fs, ss = f.swap(), s.swap()
        except Exception as e:        # noqa: BLE001
            return f"swap() raised {type(e).__name__}: {e} on the FraudScores object (the equivalent Scores object must behave the same) {info}"
        if not (np.array_equal(fs.pos, ss.pos) and np.array_equal(fs.neg, ss.neg) and fs.score_class == ss.score_class and fs.equal_class == ss.equal_class
                and np.array_equal(np.asarray(fs.cm(t).matrix), np.asarray(ss.cm(t).matrix))):
            return f"swap() differs from the underlying Scores {info}"
        if len(gen) + len(fra) >= 2 and len(set(list(gen) + list(fra))) >= 2:
            a_, b_ = f.threshold_at_metric(0.5, "fnr"), s.threshold_at_metric(0.5, "fnr")
            if len(a_) != len(b_) or any(not np.array_equal(x_, y_) for x_, y_ in zip(a_, b_)):
                return f"threshold_at_metric differs from the underlying Scores {info}"
        if len(gen) and len(fra):
            if f.eer() != s.eer() or f.auc() != s.auc() or f.auc(0.1, 0.7, x_axis="fnr", y_axis="tnr") != s.auc(0.1, 0.7, x_axis="fnr", y_axis="tnr"):
                return f"eer / auc differ from the underlying Scores {info}"
    labels = np.array([7] * len(gen) + [3] * len(fra))
    perm = np.random.RandomState(1).permutation(len(labels))
    with warnings.catch_warnings():
        warnings.simplefilter("ignore")
        f2 = FraudScores.from_labels(labels[perm], np.concatenate([gen, fra])[perm], genuine_label=7, nb_easy_genuines=case["eg"], nb_easy_frauds=case["ef"], score_class=scl)
    if not (np.array_equal(f2.genuines, f.genuines) and np.array_equal(f2.frauds, f.frauds) and f2.nb_easy_pos == f.nb_easy_pos and f2.nb_easy_neg == f.nb_easy_neg and f2.score_class == f.score_class):
        return f"from_labels does not split by the genuine label {info}"
    return None


def replay(case):
    return oracle(case)


def eval_items(items):
    counts, viols = {"fraud": [0, 0]}, []
    for case in items:
        try:
            res = oracle(case)
        except Exception as e:
            res = f"raised {type(e).__name__}: {e} for {case}"
        counts["fraud"][0] += 1
        counts["fraud"][1] += 1
        if res:
            viols.append(("fraud", f"C19/bounded/{' '.join(res.split(' ')[:3])[:50]}", res, B.jsonable(case)))
    return counts, viols, []


def bounded(chk):
    from vf.framework import run_bounded
    vals_ok = [[], [0.0], [1.0], [0.2, 0.7], [0.1, 0.1, 0.9, 1.0], [0.0, 0.5, 0.5, 1.0]]
    vals_bad = [[-0.1], [1.5], [0.2, 1.5], [1.5, 0.2], [-1e-9, 0.3], [0.3, float(np.nextafter(1.0, 2.0))], [0.5, 0.6, -3.0],
                [-5e-324], [0.4, -1e-300], [-1e-17, 0.9]]          # the smallest negative magnitudes (absorbed by x - 0.5)
    items = []
    for g in vals_ok + vals_bad:
        for f_ in vals_ok + vals_bad:
            if g in vals_bad and f_ in vals_bad and (len(g) + len(f_)) > 3:
                continue
            for scl in ("genuine", "fraud"):
                for eg, ef in ((0, 0), (2, 3)):
                    items.append({"gen": g, "fra": f_, "score_class": scl, "eg": eg, "ef": ef})
    chk.bounded["bound"] = "genuine / fraud arrays from 6 in-range and 10 out-of-range templates (empty, boundary values 0 and 1, one ulp above 1, negative subnormal / tiny values, out-of-range value first / last / only), both score classes, easy counts (0,0),(2,3); every query (incl. swap, threshold_at_metric, eer, auc) compared with a plain Scores object"
    chk.bounded["rule"] = "enumerated templates"
    chk.bounded["exhaustive"] = True
    run_bounded(chk, items, eval_items)
    chk.samples.append({"bounded-case": items[9]})


def run(chk):
    prove(chk, build, replay=replay)
    bounded(chk)
