"""Obligation builder for the threshold-setting properties C02 and C03 (one symbolic context per metric x configuration x
easy-count case).  The proof is modular in two layers (DESIGN 5.1.4 'hints are checked, then assumed'):

 arithmetic layer (array-free, discharged after clearing denominators):
    A1  the internal target index is an affine image of clip(K):      T = base(clip K) - shift
    A2  low  special case  <=>  base(clip K) <= 0          A3  high special case <=> base(clip K) >= n
    A4  r <= 0 => clip K = lowest count ;  r >= 1 => clip K = highest count          A5  r <= r2 => clip K <= clip K2
 array layer: the property clauses, with T, clip K, the two special-case tests and the comparisons of r abstracted to fresh
    symbols constrained only by A1..A5 (a sound generalisation), so that everything left is linear counting over the
    ascending score array plus the interpolation products.

K = r * N_all (relevant population, easy samples included); counts are given by the documented decision rule (spec
functions cnt_lt / cnt_le), never by the code's cm().
"""
from z3 import And, Bool, BoolVal, If, Implies, Int, IntVal, Not, Or, Real, RealVal, ToInt, ToReal, substitute

from vf import bounded as B
from vf import prims as P
from vf.common import new_exec
from vf.engine import Oblig, Path, T, toI, toR
from vf.solve import has_quant
from props import thr as TH


def zmin(a, b):
    return If(a <= b, a, b)


def zmax(a, b):
    return If(a >= b, a, b)


def un0(v):
    return v.elem() if isinstance(v, T) and v.ndim == 0 else v


class Ctx:
    pass


def floor_reflection(t, m, k):
    """L13:  t = m - k  (m integer)  =>  floor(t) = m - floor(k) - [k not integral]"""
    return Implies(t == ToReal(m) - k, And(Implies(k == ToReal(ToInt(k)), ToInt(t) == m - ToInt(k)),
                                           Implies(k != ToReal(ToInt(k)), ToInt(t) == m - ToInt(k) - 1)))


def floor_shift(t, m, k):
    """L14:  t = k - m  (m integer)  =>  floor(t) = floor(k) - m"""
    return Implies(t == k - ToReal(m), ToInt(t) == ToInt(k) - m)


def lemmas(pid):
    t, k, m = Real("t!L"), Real("k!L"), Int("m!L")
    a, b, l1, l2 = Real("a!L"), Real("b!L"), Real("l1!L"), Real("l2!L")
    lerp = lambda l, x, y: l * x + (1 - l) * y
    return [Oblig(f"{pid}/lemma/L13-floor-reflection", [], floor_reflection(t, m, k), "lemma", (pid,)),
            Oblig(f"{pid}/lemma/L14-floor-integer-shift", [], floor_shift(t, m, k), "lemma", (pid,)),
            Oblig(f"{pid}/lemma/L5a-lerp-between", [0 <= l1, l1 <= 1, a <= b], And(a <= lerp(l1, a, b), lerp(l1, a, b) <= b), "lemma", (pid,)),
            Oblig(f"{pid}/lemma/L5b-lerp-monotone-in-weight", [0 <= l2, l2 <= l1, l1 <= 1, a <= b], lerp(l1, a, b) <= lerp(l2, a, b), "lemma", (pid,))]


def base_of(metric, sc, Kc, nrel, loc):
    """internal (increasing-orientation) count target as a function of clip(K), from the statement: for metrics increasing in
    the threshold it is clip(K) - lowest, for decreasing ones n - (clip(K) - lowest); score_class = neg reverses once more"""
    b = (Kc - loc) if metric in ("fnr", "tnr", "tonr") else (nrel - (Kc - loc))
    if sc == "neg":
        b = nrel - b
    return b


def build(sizes=None, only=None, pids=("C02", "C03"), part=None):
    obs = []
    for metric in TH.METRICS:
        if part is not None and part != metric:
            continue
        for sc, ec in B.CONFIGS:
            cases = ("none", "some") if sizes is None else (None,)
            for ecase in cases:
                et = "" if ecase is None else (",easy=0" if ecase == "none" else ",easy>0")
                tag = f"[{sc},{ec}{et}]"
                if only is not None and not any(f"/{metric}/" in i and f"[{sc},{ec}" in i and (ecase is None or i.endswith(et + "]")) for i in only):
                    continue
                obs += build_one(metric, sc, ec, ecase, sizes, tag, pids)
    if sizes is None and only is None and part in (None, "misc"):
        for pid in pids:
            obs += lemmas(pid)
    return [o for o in obs if o.id.split("/")[0] in pids]


def build_one(metric, sc, ec, ecase, sizes, tag, pids):
    obs = []
    ex = new_exec(ground=bool(sizes))
    runs = {}
    path = None
    r2 = Real("r2")
    me = None
    r = None
    for nm, method, rr in (("lin", "linear", None), ("lo", "lower", None), ("hi", "higher", None), ("mono", "linear", r2)):
        run = TH.ThrRun(metric, sc, ec, method, sizes, ex=ex, path=path, me=me, r=(rr if rr is not None else r), easy_case=ecase)
        if not run.ok or run.th is None:
            return [Oblig(f"{p}/{metric}/single-non-raising-path{tag}", [], BoolVal(False), "post", (p,), {"method": method, "engine_error": "no single non-raising path through threshold_at_" + metric}) for p in pids]
        try:
            run.env = run.roles()
        except (KeyError, IndexError) as e:
            return [Oblig(f"{p}/{metric}/ghost-roles-identified{tag}", [], BoolVal(False), "post", (p,), {"engine_error": f"ghost values of _invert_increasing_function not identified: {e}"}) for p in pids]
        runs[nm] = run
        path, me, r = run.path, run.me, (run.r if r is None else r)
    lin, lo, hi, mono = runs["lin"], runs["lo"], runs["hi"], runs["mono"]
    A = lin.env.get("scores")
    arrays = [a_ for a_ in (A, lin.P, lin.N) if isinstance(a_, T) and a_.sym is not None]
    arrays = list({a_.sym[0].get_id(): a_ for a_ in arrays}.values())

    def cnt_facts(ths=(), pairs=()):
        """L1 instances at the thresholds and L3 instances for the pairs an obligation talks about"""
        fs = []
        for arr in arrays:
            for th in ths:
                fs.append(P.cnt_char(arr.sym[0], arr.sym[1], th))
            for a, b in pairs:
                fs.append(P.cnt_mono(arr.sym[0], arr.sym[1], a, b))
        return fs
    hy = path.pc
    Kc, Kc2 = lin.clipK(), lin.clipK(r2)
    nrel_i, lo_i = lin.n_rel, lin.lo_c
    nrel, loc = ToReal(nrel_i), ToReal(lo_i)

    def mk(pid, name, goal, hyps, kind="post", case=None, run=lin, keyname=None, ths=(), pairs=()):
        meta = {"key": f"{pid}/{metric}/{keyname or name}[{sc},{ec}]"}
        if sizes is None:
            meta["abstracted"] = True        # the symbolic-mode queries of this module abstract code terms by fresh symbols
        if sizes is None:
            if ths or pairs:
                hyps = list(hyps) + cnt_facts(ths, pairs)
            else:
                hyps = [h for h in hyps if "cnt_l" not in h.sexpr()]     # relevance: no counting facts for non-counting goals
        if case is not None:
            meta["case"] = (lambda m, run=run, case=case: run.case(m, case(m) if callable(case) else case))
        obs.append(Oblig(f"{pid}/{metric}/{name}{tag}", hyps, goal, kind, (pid,), meta))

    d = TH.metric_dir(metric, sc)
    from vf.proof import fval
    if sizes is not None:
        # ---------------- ground mode: direct, quantifier-free, concrete easy counts ----------------
        below, above = ToReal(lin.count(lin.th, "below")), ToReal(lin.count(lin.th, "above"))
        mk("C02", "bracket", And(zmin(below, above) - 1 <= Kc, Kc <= zmax(below, above) + 1), hy, case={"clause": "bracket"})
        tief = tiefree_at(lin, metric, lin.th)
        c = ToReal(lin.count(lin.th))
        mk("C02", "tie-free-within-one-sample", Implies(tief, And(c - Kc <= 1, Kc - c <= 1)), hy, case={"clause": "bracket"})
        for run, nm in ((lo, "lower"), (hi, "higher")):
            mk("C02", f"{nm}-is-sample-or-sentinel", sample_or_sentinel(run), hy, case={"clause": "methods"}, run=run)
        mk("C02", "metric(lower)<=metric(higher)", lin.count(lo.th) <= lin.count(hi.th), hy, case={"clause": "methods"})
        phi = Kc - ToReal(ToInt(Kc))
        mk("C02", "linear-is-convex-combination", lin.th == (1 - phi) * lo.th + phi * hi.th, hy, case={"clause": "methods"})
        mk("C02", "linear-between-lower-and-higher", And(zmin(lo.th, hi.th) <= lin.th, lin.th <= zmax(lo.th, hi.th)), hy, case={"clause": "methods"})
        mk("C02", "monotone-in-r", Implies(lin.r <= r2, (lin.th <= mono.th) if d > 0 else (lin.th >= mono.th)), hy,
           case=lambda m: {"clause": "monotone", "r2": float(fval(m, r2))})
        for run, method in ((lin, "linear"), (lo, "lower"), (hi, "higher")):
            for end, cond, want in (("low", lin.r <= 0, lin.lo_c), ("high", lin.r >= 1, lin.hi_c)):
                mk("C03", f"extreme-{end}[{method}]", Implies(cond, lin.count(run.th) == want), hy, case={"clause": "extreme", "end": end}, run=run,
                   keyname=f"extreme-{end}")
        collect_safety(ex, obs, metric, tag, pids)
        return obs

    # ---------------- arithmetic layer ----------------
    arith = [h for h in hy if not has_quant([h]) and "select" not in h.sexpr()]
    abstr, facts, zl, zh = [], [], [], []
    for k, (run, K_) in enumerate(((lin, Kc), (mono, Kc2))):
        env = run.env
        try:
            T_, rho = toR(un0(env["target"])), toR(un0(env["target_ratio"]))
            shift = 0 if env["left_continuous"] is True else 1
        except KeyError as e:
            return [Oblig(f"{p}/{metric}/internal-names{tag}", [], BoolVal(False), "post", (p,), {"missing": str(e), "engine_error": f"ghost value not identified: {e}"}) for p in pids]
        base = base_of(metric, sc, K_, nrel, loc)
        sfx = "" if k == 0 else "(r2)"
        for p_ in pids:
            if k == 1 and p_ != "C02":
                continue
            mk(p_, f"arith/A1-target-affine-in-clipK{sfx}", Implies(And(Not(rho <= 0), Not(rho >= 1)), T_ == base - shift), arith, "hint")
            mk(p_, f"arith/A2-low-special-case{sfx}", (rho <= 0) == (base <= 0), arith, "hint")
            mk(p_, f"arith/A3-high-special-case{sfx}", (rho >= 1) == (base >= nrel), arith, "hint")
        tau, kap, zlo, zhi = Real(f"tau{k}!abs"), Real(f"kappa{k}!abs"), Bool(f"zlo{k}!abs"), Bool(f"zhi{k}!abs")
        abstr += [(T_, tau), (rho <= 0, zlo), (RealVal(0) >= rho, zlo), (rho >= 1, zhi), (RealVal(1) <= rho, zhi), (K_, kap)]
        zl.append(zlo)
        zh.append(zhi)
        bk = base_of(metric, sc, kap, nrel, loc)
        facts += [Implies(And(Not(zlo), Not(zhi)), tau == bk - shift), zlo == (bk <= 0), zhi == (bk >= nrel), loc <= kap, kap <= loc + nrel]
        if k == 0:
            tau0, kap0, shift0, base0 = tau, kap, shift, bk
        else:
            kap1 = kap
    rle0, rge1, r12 = Bool("r<=0!abs"), Bool("r>=1!abs"), Bool("r<=r2!abs")
    mk("C03", "arith/A4-extreme-targets-clip", And(Implies(lin.r <= 0, Kc == loc), Implies(lin.r >= 1, Kc == loc + nrel)), arith, "hint")
    prods = [Implies(lin.r <= r2, lin.r * ToReal(c_) <= r2 * ToReal(c_)) for c_ in (lin.npos, lin.nneg, lin.ep, lin.en)]
    mk("C02", "arith/A5a-products-monotone", And(*prods), [lin.npos >= 0, lin.nneg >= 0, lin.ep >= 0, lin.en >= 0], "hint")
    mk("C02", "arith/A5-clipK-monotone-in-r", Implies(lin.r <= r2, Kc <= Kc2), arith + prods, "hint")
    abstr += [(lin.r <= 0, rle0), (RealVal(0) >= lin.r, rle0), (lin.r >= 1, rge1), (RealVal(1) <= lin.r, rge1), (lin.r <= r2, r12), (r2 >= lin.r, r12)]
    facts += [Implies(rle0, kap0 == loc), Implies(rge1, kap0 == loc + nrel), Implies(r12, kap0 <= kap1), nrel_i >= 1, lo_i >= 0]

    # ---------------- array layer (abstracted) ----------------
    def ab(f):
        return substitute(f, *abstr)
    hy2 = [ab(h) for h in hy] + facts
    th_l, th_lo, th_hi, th_m = ab(lin.th), ab(lo.th), ab(hi.th), ab(mono.th)
    below, above = ToReal(lin.count(th_l, "below")), ToReal(lin.count(th_l, "above"))
    mk("C02", "bracket", And(zmin(below, above) - 1 <= kap0, kap0 <= zmax(below, above) + 1), hy2, ths=[th_l])
    c = ToReal(lin.count(th_l))
    mk("C02", "tie-free-within-one-sample", Implies(tiefree_at(lin, metric, th_l), And(c - kap0 <= 1, kap0 - c <= 1)), hy2, ths=[th_l])
    for run, nm in ((lo, "lower"), (hi, "higher")):
        mk("C02", f"{nm}-is-sample-or-sentinel", ab(sample_or_sentinel(run)), hy2, run=run)
    mk("C02", "metric(lower)<=metric(higher)", lin.count(th_lo) <= lin.count(th_hi), hy2, ths=[th_lo, th_hi], pairs=[(th_lo, th_hi)])
    # convex combination, split into checked hints
    la_c = ab(toR(un0(lin.env["la"])))
    w = la_c if d > 0 else 1 - la_c
    phi = kap0 - ToReal(ToInt(kap0))
    interior = And(Not(zl[0]), Not(zh[0]))
    isint = tau0 == ToReal(ToInt(tau0))
    h1 = Implies(interior, th_l == w * th_lo + (1 - w) * th_hi)
    h2 = Implies(And(interior, phi != 0), w == 1 - phi)
    h2c = Implies(And(interior, phi == 0), isint)
    h3 = Implies(Not(interior), And(th_l == th_lo, th_l == th_hi))
    h4 = Implies(isint, th_lo == th_hi)
    inst = []
    for m_ in (nrel_i + lo_i - shift0, lo_i + shift0, nrel_i - lo_i - shift0, lo_i - shift0):
        inst += [floor_reflection(tau0, m_, kap0), floor_shift(tau0, m_, kap0)]
    mk("C02", "convex/h1-structure", h1, hy2, "hint")
    mk("C02", "convex/h2-weight-is-fractional-part", h2, facts + inst, "hint")
    mk("C02", "convex/h2c-grid-target-is-integral", h2c, facts + inst, "hint")
    mk("C02", "convex/h3-special-cases-coincide", h3, hy2, "hint")
    mk("C02", "convex/h4-integral-target-lower=higher", h4, hy2, "hint")
    a_, b_, c_ = Real("lin!abs"), Real("lo!abs"), Real("hi!abs")
    ww, ff, ti, zz = Real("w!abs"), Real("phi!abs"), Bool("Tint!abs"), Bool("interior!abs")
    sub2 = [(th_l, a_), (th_lo, b_), (th_hi, c_), (w, ww), (phi, ff), (isint, ti), (interior, zz)]
    hs = [substitute(h, *sub2) for h in (h1, h2, h2c, h3, h4)]
    mk("C02", "linear-is-convex-combination", substitute(th_l == (1 - phi) * th_lo + phi * th_hi, *sub2), hs + [0 <= ff, ff < 1])
    # between: from the convex combination (L5a) once lower/higher are ordered either way
    mk("C02", "linear-between-lower-and-higher", And(zmin(th_lo, th_hi) <= th_l, th_l <= zmax(th_lo, th_hi)),
       [th_l == (1 - phi) * th_lo + phi * th_hi, 0 <= phi, phi < 1])
    mk("C02", "monotone-in-r", Implies(r12, (th_l <= th_m) if d > 0 else (th_l >= th_m)), hy2, "relational")
    for run, method, th_ in ((lin, "linear", th_l), (lo, "lower", th_lo), (hi, "higher", th_hi)):
        for end, cond, want in (("low", rle0, lin.lo_c), ("high", rge1, lin.hi_c)):
            mk("C03", f"extreme-{end}[{method}]", Implies(cond, lin.count(th_) == want), hy2, run=run, keyname=f"extreme-{end}", ths=[th_])
    collect_safety(ex, obs, metric, tag, pids, abstr, facts)
    return obs


def tiefree_at(lin, metric, th):
    eqs = []
    for arr in ((lin.P,) if metric in ("tpr", "fnr") else (lin.N,) if metric in ("tnr", "fpr") else (lin.P, lin.N)):
        eqs.append(arr.facts["cnt"](th, False) - arr.facts["cnt"](th, True))
    return sum(eqs[1:], eqs[0]) <= 1


def sample_or_sentinel(run):
    env = run.env
    A_ = env["scores"]
    n = toI(A_.axes[0].size)
    wl, wr = toI(un0(env["left_idx"])), toI(un0(env["right_idx"]))
    isamp = Or(And(0 <= wl, wl < n, run.th == toR(A_.elem(wl))), And(0 <= wr, wr < n, run.th == toR(A_.elem(wr))))
    sent = Or(run.th == P.nxt_dn(toR(A_.elem(0))), run.th == P.nxt_up(toR(A_.elem(n - 1))))
    return Or(isamp, sent)


def collect_safety(ex, obs, metric, tag, pids, abstr=None, facts=None):
    seen = set()
    for so in ex.obligs:
        if so.id.startswith(("C02/", "C03/")):
            continue
        key = (so.id, so.goal.get_id() if hasattr(so.goal, "get_id") else 0)
        if key in seen:
            continue
        seen.add(key)
        so.id = f"C02/{metric}/safety:{so.id}#{len(seen)}{tag}"
        so.props = ("C02", "C03")
        if abstr:
            so.hyps = [substitute(h, *abstr) for h in so.hyps] + list(facts)
            so.goal = substitute(so.goal, *abstr)
            so.meta = dict(so.meta or {}, abstracted=True)
        obs.append(so)
