"""C07 -- AUC equals the Mann-Whitney statistic; partial AUC is the exact step-ROC area.

Proved (window contract of Scores.auc, all axis pairs): the body is executed with the rate methods replaced by their contract
(an opaque array over the sorted evaluation points: values in [0,1], monotone in the direction given by the decision rule -- the
monotonicity itself is C15's obligation): the evaluation points are the sorted ulp-neighbours of all scores; after the optional
reversal x is ascending (pre-condition of both searchsorted calls); all index accesses are in bounds; window *soundness and
completeness*: a node k lies in [left, right) iff lower <= x[k] <= upper (unclamped case); the integration nodes are ascending
from lower to upper; the two cut values are y[left], y[right-1]; the result is |trapz| >= 0.
Bounded (exhaustive weak orderings): equality with the Mann-Whitney statistic (ties 1/2, easy samples beyond), exact step area,
additivity over adjacent intervals, <= upper-lower, the three complement identities.
"""
import itertools
from fractions import Fraction

import numpy as np
from z3 import And, Array, BoolVal, ForAll, If, Implies, Int, IntSort, MultiPattern, Not, Or, Real, RealSort

from vf import bounded as B
from vf import prims as P
from vf.common import mk_scores, new_exec, run_method
from vf.engine import Axis, Oblig, Path, T, same_size, toI, toR
from vf.proof import prove
from props.thr import metric_dir

LEVEL = "other"
RATES = ["tpr", "fnr", "tnr", "fpr"]


def build(sizes=None, only=None, part=None):
    obs = []
    if sizes is not None:
        return obs
    for sc in ("pos", "neg"):
        if part is not None and part != sc:
            continue
        for x_axis, y_axis in itertools.product(RATES, RATES):
            if x_axis[:2] == y_axis[:2] or {x_axis, y_axis} in ({"tpr", "fnr"}, {"tnr", "fpr"}):
                continue
            try:
                obs += build_one(sc, "pos", x_axis, y_axis)
            except Exception as e:
                import os
                if os.environ.get("VERIF_DEBUG"):
                    import traceback
                    traceback.print_exc()
                obs.append(Oblig(f"C07/auc/executes[{sc},x={x_axis},y={y_axis}]", [], BoolVal(False), "post", ("C07",), {"engine_error": f"{type(e).__name__}: {e}"}))
    return obs


PARTS = ["pos", "neg"]


def build_one(sc, ec, x_axis, y_axis):
    obs = []
    tag = f"[{sc},x={x_axis},y={y_axis}]"
    state = {"points": []}

    def rate_contract(name):
        def c(ex, path, self_, pts):
            # contract of a rate method on an ascending threshold array: opaque values in [0,1], monotone by the decision rule
            state["points"].append((name, pts))
            n = toI(pts.axes[0].size)
            R = Array(f"{name}_at_points!{next(ex.fresh)}", IntSort(), RealSort())
            i, j = Int("i!r"), Int("j!r")
            path.add(ForAll([i], Implies(And(0 <= i, i < n), And(0 <= R[i], R[i] <= 1)), patterns=[R[i]]))
            d = metric_dir(name, sc)
            path.add(ForAll([i, j], Implies(And(0 <= i, i <= j, j < n), (R[i] <= R[j]) if d > 0 else (R[i] >= R[j])), patterns=[MultiPattern(R[i], R[j])]))
            t = T((Axis(name, n),), lambda k, R=R: R[toI(k)], prov="fresh", sym=(R, n))
            t.facts["dir"] = d
            return t
        return c
    ex = new_exec(contracts={("Scores", r): rate_contract(r) for r in RATES})
    path = Path()
    me = mk_scores(ex, path, sc, ec, min_pos=1, min_neg=1)
    lower, upper = Real("lower"), Real("upper")
    path.add(And(0 <= lower, lower <= upper, upper <= 1))
    outs = run_method(ex, "Scores", "auc", me, [lower, upper], {"x_axis": x_axis, "y_axis": y_axis}, path=path)
    live = [o for o in outs if not o.raised]

    def ob(name, goal, hyps, kind="post", meta=None):
        obs.append(Oblig(f"C07/auc/{name}{tag}", hyps, goal, kind, ("C07",), dict({"key": f"C07/auc/{name}"}, **(meta or {}))))
    ob("no-raising-path", BoolVal(len(live) == len(outs) and len(live) >= 1), [], "post", {"paths": len(outs)})
    # evaluation points: both rate calls receive the same sorted array of the ulp-neighbours of every score
    pts = state["points"]
    okp = len(pts) == 2 and pts[0][1] is pts[1][1] and pts[0][0] == x_axis and pts[1][0] == y_axis
    ob("points/both-axes-evaluated-on-the-same-points", BoolVal(bool(okp)), [], "structural")
    if okp:
        p_ = pts[0][1]
        src = getattr(p_, "sorted_of", None)
        flat = getattr(src, "flat_of", None) if src is not None else None
        ob("points/are-np.sort-of-a-flattened-(2,n)-array", BoolVal(p_.facts.get("sorted") is True and flat is not None and flat.ndim == 2 and flat.axes[0].size == 2), [], "structural")
        if flat is not None and flat.ndim == 2:
            k = ex.new_int("k")
            npos, nneg = toI(me.attrs["pos"].axes[0].size), toI(me.attrs["neg"].axes[0].size)
            Ap, An = me.attrs["pos"].sym[0], me.attrs["neg"].sym[0]
            from z3 import If
            score = If(k < npos, Ap[k], An[k - npos])
            hy = path.pc + [0 <= k, k < npos + nneg]
            ob("points/row0-is-the-lower-ulp-neighbour-of-each-score", toR(flat.elem(0, k)) == P.nxt_dn(score), hy)
            ob("points/row1-is-the-upper-ulp-neighbour-of-each-score", toR(flat.elem(1, k)) == P.nxt_up(score), hy)
            ob("points/cover-all-scores", toI(flat.axes[1].size) == npos + nneg, path.pc)
    for pi, o in enumerate(live):
        ptag = f"/path{pi}"
        env = o.env
        hy = o.path.pc
        x2, y2 = env.get("x"), env.get("y")            # after the window concatenation
        left, right = toI(env.get("left")), toI(env.get("right"))
        # recover the arrays the window was cut from: the (possibly reversed) contract arrays
        xs = [t for (nm, _), t in zip(pts, [None, None])]
        ob(f"result-is-nonnegative{ptag}", toR(o.value) >= 0, hy)
    # window obligations need the pre-concatenation arrays: re-run the window logic on the recorded environment
    obs += window_obligations(ex, live, tag, lower, upper)
    for so in ex.obligs:
        so.id = f"C07/auc/safety:{so.id}#{len(obs)}{tag}"
        so.props = ("C07",)
        obs.append(so)
    return obs


def window_obligations(ex, live, tag, lower, upper):
    """the environment at return keeps `left`, `right` and the concatenated x / y; the ascending array the window was taken from is
    recovered from the slices inside the concatenation (parts[1] of x is the view x[left:right])"""
    obs = []
    for pi, o in enumerate(live):
        ptag = f"/path{pi}"
        env, hy = o.env, o.path.pc
        xc, yc = env.get("x"), env.get("y")
        parts = getattr(xc, "parts", None)
        if not parts or len(parts) != 3:
            obs.append(Oblig(f"C07/auc/window/structure{ptag}{tag}", [], BoolVal(False), "structural", ("C07",), {"engine_error": "window structure not recognised"}))
            continue
        left, right = toI(env["left"]), toI(env["right"])
        mid = parts[1]
        n_mid = toI(mid.axes[0].size)
        # the sliced view knows its offset: element k of the view is X[left + k]
        k = ex.new_int("k")
        src = getattr(mid, "view_src", None)
        if src is None:
            obs.append(Oblig(f"C07/auc/window/structure{ptag}{tag}", [], BoolVal(False), "structural", ("C07",), {"engine_error": "slice source unknown"}))
            continue
        X, N = src
        Xk = lambda kk: toR(X.elem(kk))

        def ob(name, goal, extra=(), kind="post"):
            obs.append(Oblig(f"C07/auc/window/{name}{ptag}{tag}", hy + list(extra), goal, kind, ("C07",), {"key": f"C07/auc/window/{name}"}))
        n = toI(N)
        # the two raw cuts (before the clamping lines) are the searchsorted results recorded on this path
        ids = {f.get_id() for f in hy}
        ss = [e_ for e_ in getattr(ex, "ss_log", []) if e_["fact"] in ids]
        if len(ss) != 2:
            # the window is not computed by two searchsorted calls: the contract cannot be phrased -> undecided, not a verdict
            obs.append(Oblig(f"C07/auc/window/two-cuts-recognised{ptag}{tag}", [], BoolVal(False), "structural", ("C07",),
                             {"engine_error": f"window cuts not recognised: {[e_['side'] for e_ in ss]}"}))
            continue
        # the unclamped case is phrased with the *specification's* cuts (first index with x >= lower, first index with x > upper),
        # whatever the code computes
        raw_l, raw_r = P.cnt_lt(ss[0]["A"], ss[0]["N"], lower), P.cnt_le(ss[0]["A"], ss[0]["N"], upper)
        hy = hy + [P.cnt_char(ss[0]["A"], ss[0]["N"], lower), P.cnt_char(ss[0]["A"], ss[0]["N"], upper)]
        hy = hy + [ss[0]["v"] == lower, ss[1]["v"] == upper] if False else hy
        unclamped = And(raw_l <= n - 1, raw_r >= 1)
        A_ = ss[0]["A"]
        Xk = lambda kk: A_[toI(kk)]            # the searched (named, ascending) array
        ob("soundness: nodes inside [left,right) have lower <= x <= upper", Implies(And(unclamped, left <= k, k < right), And(lower <= Xk(k), Xk(k) <= upper)), [0 <= k, k < n])
        ob("completeness: nodes with lower <= x <= upper lie inside [left,right)", Implies(And(lower <= Xk(k), Xk(k) <= upper), And(left <= k, k < right)), [0 <= k, k < n])
        ob("slice-is-x[left:right]", And(n_mid == If(right - left >= 0, right - left, 0), Implies(k < n_mid, toR(mid.elem(k)) == Xk(left + k))), [0 <= k, k < n])
        ob("end-nodes-are-lower-and-upper", And(toR(parts[0].elem(0)) == lower, toR(parts[2].elem(0)) == upper))
        i, j = ex.new_int("i"), ex.new_int("j")
        tot = toI(xc.axes[0].size)
        ob("integration-nodes-ascending", Implies(unclamped, toR(xc.elem(i)) <= toR(xc.elem(j))), [0 <= i, i <= j, j < tot])
        yparts = getattr(yc, "parts", None)
        if yparts and len(yparts) == 3:
            ysrc = getattr(yparts[1], "view_src", None)
            if ysrc is not None:
                Y, _ = ysrc
                ob("cut-values-are-y[left]-and-y[right-1]", And(toR(yparts[0].elem(0)) == toR(Y.elem(left)), toR(yparts[2].elem(0)) == toR(Y.elem(right - 1)),
                                                                 toR(yparts[1].elem(k)) == toR(Y.elem(left + k))), [0 <= k, k < n_mid])
    return obs


# ----------------------------------------------------------------------------------------------------------------
# bounded layer

def mann_whitney(pos, neg, ep, en, sc):
    """P(random positive ranked on the positive side of a random negative) + 1/2 P(tie); easy samples rank beyond all"""
    P_, N_ = len(pos) + ep, len(neg) + en
    wins = Fraction(0)
    for p in pos:
        for q in neg:
            better = p > q if sc == "pos" else p < q
            wins += 1 if better else (Fraction(1, 2) if p == q else 0)
    wins += ep * N_            # an easy positive beats every negative
    wins += en * len(pos)      # every scored positive beats an easy negative
    return wins / (P_ * N_)


def step_area(pos, neg, ep, en, sc, lo, hi):
    """exact area under the empirical step ROC (x=FPR, y=TPR) between x in [lo, hi]; no cross-class ties"""
    P_, N_ = len(pos) + ep, len(neg) + en
    order = sorted(neg, reverse=(sc == "pos"))           # negatives in the order they become false positives
    area = Fraction(0)
    for k in range(N_):
        a, b = Fraction(k, N_), Fraction(k + 1, N_)
        l_, h_ = max(a, Fraction(lo)), min(b, Fraction(hi))
        if h_ <= l_:
            continue
        if k < len(order):
            q = order[k]
            tp = sum(1 for p in pos if (p > q if sc == "pos" else p < q)) + ep
        else:
            tp = P_                                        # the step of an easy negative: all positives are already accepted
        area += (h_ - l_) * Fraction(tp, P_)
    return area


def oracle(case):
    from vf.framework import real_repo
    sa = real_repo()
    pos, neg, ep, en, sc, ec = case["pos"], case["neg"], case["ep"], case["en"], case["sc"], case["ec"]
    s = sa.Scores(pos, neg, nb_easy_pos=ep, nb_easy_neg=en, score_class=sc, equal_class=ec)
    info = f"[pos={pos} neg={neg} easy=({ep},{en}) {sc}/{ec}]"
    full = s.auc()
    mw = mann_whitney(pos, neg, ep, en, sc)
    if abs(full - float(mw)) > 1e-12:
        return f"auc() = {full!r} but the Mann-Whitney statistic is {float(mw)!r} {info}"
    if abs(s.auc(x_axis="tpr", y_axis="fpr") - (1 - full)) > 1e-12:
        return f"exchanging the axes over the full range: {s.auc(x_axis='tpr', y_axis='fpr')!r} != 1 - {full!r} {info}"
    if set(pos) & set(neg):
        return None
    cuts = sorted({Fraction(0), Fraction(1)} | {Fraction(k, len(neg) + en) for k in range(len(neg) + en + 1)} | {Fraction(1, 3), Fraction(7, 10), Fraction(1, 20)})
    for lo, hi in itertools.combinations(cuts, 2):
        a = s.auc(float(lo), float(hi))
        exp = step_area(pos, neg, ep, en, sc, lo, hi)
        if abs(a - float(exp)) > 1e-12:
            return f"auc({float(lo)!r}, {float(hi)!r}) = {a!r} but the step-ROC area is {float(exp)!r} {info}"
        if a > float(hi - lo) + 1e-12:
            return f"auc({float(lo)!r}, {float(hi)!r}) = {a!r} exceeds upper-lower {info}"
        yc = s.auc(float(lo), float(hi), y_axis="fnr")
        if abs(yc - (float(hi - lo) - a)) > 1e-12:
            return f"y-complement: auc(fnr) {yc!r} != (upper-lower) - {a!r} on [{float(lo)},{float(hi)}] {info}"
        xc = s.auc(float(1 - hi), float(1 - lo), x_axis="tnr")
        if abs(xc - a) > 1e-12:
            return f"x-complement: auc over tnr on the mirrored interval {xc!r} != {a!r} on [{float(lo)},{float(hi)}] {info}"
    for lo, mid, hi in itertools.combinations(cuts[::2] + [Fraction(1, 3)], 3):
        lo, mid, hi = sorted((lo, mid, hi))
        if abs(s.auc(float(lo), float(mid)) + s.auc(float(mid), float(hi)) - s.auc(float(lo), float(hi))) > 1e-12:
            return f"not additive over [{float(lo)},{float(mid)}] + [{float(mid)},{float(hi)}] {info}"
    return None


def replay(case):
    return oracle(case)


def eval_items(items):
    counts, viols = {"auc": [0, 0]}, []
    for case in items:
        try:
            res = oracle(case)
        except Exception as e:
            res = f"auc raised {type(e).__name__}: {e} [pos={case['pos']} neg={case['neg']} easy=({case['ep']},{case['en']}) {case['sc']}/{case['ec']}]"
        counts["auc"][0] += 1
        counts["auc"][1] += 1
        if res:
            kind = "mann-whitney" if "Mann-Whitney" in res else "step-area" if "step-ROC" in res else "additive" if "additive" in res else \
                "complement" if "complement" in res or "exchanging" in res else "bound" if "exceeds" in res else "raised"
            viols.append(("auc", f"C07/bounded/{kind}[{case['sc']},{case['ec']}]", res, B.jsonable(case)))
    return counts, viols, []


def bounded(chk):
    from vf.framework import run_bounded
    maxn = 5 if chk.tier == "quick" else 7
    easy = [(0, 0), (1, 0), (0, 3), (2, 1)] if chk.tier == "quick" else [(0, 0), (1, 0), (0, 1), (0, 3), (2, 1), (3, 3)]
    items = []
    for pos, neg in B.order_types(maxn, min_pos=1, min_neg=1):
        for ep, en in easy:
            for sc, ec in B.CONFIGS:
                items.append({"pos": pos, "neg": neg, "ep": ep, "en": en, "sc": sc, "ec": ec})
    chk.bounded["bound"] = f"all weak orderings (every tie pattern) with both classes non-empty, pos+neg <= {maxn}; easy counts {easy}; 4 configurations; every pair of cuts on the 1/N grid plus 1/20, 1/3, 7/10"
    chk.bounded["rule"] = "enumerated; exact rational reference values (Mann-Whitney statistic, step-ROC area)"
    chk.bounded["exhaustive"] = True
    run_bounded(chk, items, eval_items)
    chk.samples.append({"bounded-case": items[min(70, len(items) - 1)]})


def run(chk):
    prove(chk, build, replay=replay, parts=PARTS)
    bounded(chk)
    chk.extra["explanation"] = ("proved for all inputs: the window contract of Scores.auc (evaluation points, ascending pre-condition of both cuts, index bounds, window soundness "
                                "and completeness, cut values, ascending integration nodes, non-negative result) with the rate methods as contracts. Bounded-exhaustive: equality with "
                                "the Mann-Whitney statistic and the exact step area, additivity, the bound, the three complement identities -- these need an induction over the merged "
                                "node sequence that the contracts do not carry.")
