"""Discharging obligations.  Every solver call runs in a forked worker process with a hard wall-clock kill
(z3's own `timeout` is not honoured inside nlsat).  Strategies per obligation (DESIGN 5.1):
  1. z3 on hyps + not(goal) as generated (quantified facts with patterns)          backend 'z3-quantified' / 'z3-qf'
  2. index-instantiated, quantifier-free version                                  backend 'z3-instantiated'
  3. cvc5 on the quantifier-free text (thorough tier / z3 unknown)                 backend 'cvc5'
Statuses: 'unsat' (discharged), 'sat' (refuted; only trusted when the query is quantifier-free), 'unknown', 'timeout'.
"""
import itertools
import multiprocessing as mp
import os
import time

import z3
from z3 import And, BoolVal, Not, Solver, is_and, is_app, is_quantifier, sat, substitute_vars, unknown, unsat

CTX = mp.get_context("fork")


def has_quant(fs):
    seen = set()

    def walk(e):
        if e.get_id() in seen:
            return False
        seen.add(e.get_id())
        if is_quantifier(e):
            return True
        return any(walk(c) for c in e.children())
    return any(walk(f) for f in fs)


def flatten(fs):
    out = []
    for f in fs:
        if is_and(f):
            out += flatten(f.children())
        else:
            out.append(f)
    return out


def select_indices(es):
    acc, seen = {}, set()

    def walk(e):
        if e.get_id() in seen:
            return
        seen.add(e.get_id())
        if is_quantifier(e):
            return
        if is_app(e) and e.decl().kind() == z3.Z3_OP_SELECT:
            i = e.arg(1)
            acc[i.get_id()] = i
        for c in e.children():
            walk(c)
    for e in es:
        walk(e)
    return list(acc.values())


def instantiate(hyps, goal_neg, rounds=1, extra_idx=(), cap=40000):
    """Bradley-Manna style: instantiate the Int-quantified facts at the index terms occurring in reads"""
    facts = flatten(hyps)
    ground = [f for f in facts if not is_quantifier(f)]
    quants = [f for f in facts if is_quantifier(f) and f.is_forall()]
    insts, done = [], set()
    for _ in range(rounds):
        idx = {i.get_id(): i for i in select_indices(ground + [goal_neg] + insts)}
        for i in extra_idx:
            idx[i.get_id()] = i
        idx = list(idx.values())
        new = []
        for q in quants:
            nv = q.num_vars()
            sorts = [q.var_sort(j) for j in range(nv)]
            if nv > 2 or not all(s == z3.IntSort() for s in sorts):
                continue
            for combo in itertools.product(idx, repeat=nv):
                key = (q.get_id(),) + tuple(c.get_id() for c in combo)
                if key in done:
                    continue
                done.add(key)
                new.append(substitute_vars(q.body(), *reversed(combo)))
                if len(new) + len(insts) > cap:
                    break
        insts += new
    # real-quantified facts (nextafter, cnt preservation) are kept: z3 handles a few of them by MBQI/E-matching
    keep = [q for q in quants if not all(q.var_sort(j) == z3.IntSort() for j in range(q.num_vars())) or q.num_vars() > 2]
    return ground + insts + keep


def _solve_one(ob, timeout_ms, mode):
    t0 = time.time()
    hyps, goal = ob.hyps, ob.goal
    s = Solver()
    s.set("timeout", int(timeout_ms))
    neg = Not(goal)
    if ob.meta.get("theory") == "strings":
        # string obligations: cvc5 (--strings-exp) decides what z3's sequence solver leaves unknown; a z3 QF model refutes
        import subprocess
        import tempfile
        if mode != "direct":
            return "unknown", 0.0, "cvc5-strings", "string obligations are only tried in direct mode"
        s.add(hyps)
        s.add(neg)
        d = tempfile.mkdtemp(prefix="vfcvc5")
        try:
            fn = os.path.join(d, "q.smt2")
            with open(fn, "w") as fh:
                fh.write("(set-logic ALL)\n" + s.to_smt2())
            try:
                out = subprocess.run(["/usr/bin/cvc5", "--strings-exp", f"--tlimit={int(timeout_ms)}", fn], capture_output=True, text=True,
                                     timeout=timeout_ms / 1000 + 5).stdout.strip()
            except subprocess.TimeoutExpired:
                out = "timeout"
        finally:
            import shutil
            shutil.rmtree(d, ignore_errors=True)
        if out.splitlines()[:1] == ["unsat"]:
            return "unsat", time.time() - t0, "cvc5-1.0.3 --strings-exp", None
        s.set("timeout", int(min(timeout_ms, 5000)))
        r = s.check()
        if r == sat:
            m = s.model()
            return "sat", time.time() - t0, "z3-qf-strings", {str(d_): str(m[d_]) for d_ in m.decls()[:20]}
        if r == unsat:
            return "unsat", time.time() - t0, "z3-qf-strings", None
        return "unknown", time.time() - t0, "cvc5-1.0.3 --strings-exp", out[:200]
    if mode == "lin":
        from .linearize import linearize
        hs, g, side, nmono = linearize(hyps, goal)
        if side is not None:
            s0 = Solver()
            s0.set("timeout", int(timeout_ms))
            s0.add(hyps)
            s0.add(Not(side))
            if s0.check() != unsat:
                return "unknown", time.time() - t0, "z3-linearized", "divisor positivity not proved"
        from .linearize import elim_toint
        fs, ax = elim_toint(hs + [Not(g)])
        s.add(fs)
        s.add(ax)
        r = s.check()
        st = "unsat" if r == unsat else "unknown"
        return st, time.time() - t0, "z3-linearized", (None if r == unsat else f"{r} after clearing denominators / abstracting {nmono} monomials")
    if mode == "cvc5":
        # quantifier-free obligations only: clear denominators, abstract monomials, floors as integer variables, cvc5 CLI
        import subprocess
        import tempfile
        from .linearize import elim_toint, linearize
        if has_quant(list(hyps) + [goal]):
            return "unknown", 0.0, "cvc5", "quantified: not sent to cvc5"
        hs, g, side, nmono = linearize(hyps, goal)
        raw = False
        if side is not None:
            s0 = Solver()
            s0.set("timeout", int(timeout_ms))
            s0.add(hyps)
            s0.add(Not(side))
            if s0.check() != unsat:
                raw = True          # denominators may vanish: hand cvc5 the original text (division is a total function in SMT-LIB)
        if raw:
            s.add(hyps)
            s.add(Not(goal))
        else:
            fs, ax = elim_toint(hs + [Not(g)])
            s.add(fs)
            s.add(ax)
        d = tempfile.mkdtemp(prefix="vfcvc5")
        try:
            fn = os.path.join(d, "q.smt2")
            with open(fn, "w") as fh:
                fh.write("(set-logic ALL)\n" + s.to_smt2())
            try:
                out = subprocess.run(["/usr/bin/cvc5", f"--tlimit={int(timeout_ms)}", fn], capture_output=True, text=True,
                                     timeout=timeout_ms / 1000 + 5).stdout.strip()
            except subprocess.TimeoutExpired:
                out = "timeout"
        finally:
            import shutil
            shutil.rmtree(d, ignore_errors=True)
        st = "unsat" if out.splitlines()[:1] == ["unsat"] else "unknown"
        return st, time.time() - t0, "cvc5-1.0.3", (None if st == "unsat" else out[:200])
    if mode == "inst":
        fs = instantiate(hyps, neg, rounds=int(ob.meta.get("inst_rounds", 1)), extra_idx=ob.meta.get("idx", ()))
        s.add(fs)
        s.add(neg)
        # instantiation only weakens quantified hypotheses: a model is a candidate unless the original query was quantifier-free
        qf = not has_quant(fs) and not has_quant(list(hyps) + [goal])
        backend = "z3-instantiated"
    else:
        s.add(hyps)
        s.add(neg)
        qf = not has_quant(list(hyps) + [goal])
        backend = "z3-qf" if qf else "z3-quantified"
    r = s.check()
    st = "unsat" if r == unsat else ("sat" if r == sat else "unknown")
    detail = None
    if r == sat:
        try:
            m = s.model()
            detail = {str(d): str(m[d]) for d in m.decls()[:60]}
        except Exception:
            detail = None
        if not qf:
            st = "unknown"          # a model of a quantified query is only a candidate
    elif r == unknown:
        detail = s.reason_unknown()
    return st, time.time() - t0, backend, detail


def _worker(obs, idxs, conn, timeout_ms, mode):
    for i in idxs:
        conn.send(("start", i))
        try:
            res = _solve_one(obs[i], timeout_ms, mode)
        except Exception as e:       # solver exception -> unknown
            res = ("unknown", 0.0, "z3", f"exception {type(e).__name__}: {e}")
        conn.send(("done", i, res))
    conn.send(("exit",))
    conn.close()


def run_pool(obs, idxs, timeout_s, mode, jobs):
    """solve obs[i] for i in idxs; returns {i: (status, time, backend, detail)}"""
    results = {}
    pending = list(idxs)
    if not pending:
        return results
    jobs = max(1, min(jobs, len(pending)))
    chunks = [pending[k::jobs] for k in range(jobs)]
    workers = []

    def spawn(chunk):
        pc, cc = CTX.Pipe(duplex=False)
        p = CTX.Process(target=_worker, args=(obs, chunk, cc, int(timeout_s * 1000), mode), daemon=True)
        p.start()
        cc.close()
        workers.append({"p": p, "conn": pc, "chunk": list(chunk), "cur": None, "t0": time.time()})
    for c in chunks:
        spawn(c)
    hard = timeout_s * 1.5 + 5
    while workers:
        for w in list(workers):
            try:
                while w["conn"].poll(0.01):
                    msg = w["conn"].recv()
                    if msg[0] == "start":
                        w["cur"], w["t0"] = msg[1], time.time()
                    elif msg[0] == "done":
                        results[msg[1]] = msg[2]
                        w["chunk"].remove(msg[1])
                        w["cur"] = None
                    elif msg[0] == "exit":
                        w["p"].join(1)
                        workers.remove(w)
                        break
            except (EOFError, OSError):
                # worker died: mark current as unknown and restart on the rest
                if w["cur"] is not None and w["cur"] not in results:
                    results[w["cur"]] = ("unknown", time.time() - w["t0"], "z3", "worker died")
                    if w["cur"] in w["chunk"]:
                        w["chunk"].remove(w["cur"])
                rest = [i for i in w["chunk"] if i not in results]
                workers.remove(w)
                if rest:
                    spawn(rest)
                continue
            if w in workers and w["cur"] is not None and time.time() - w["t0"] > hard:
                w["p"].kill()
                w["p"].join(1)
                results[w["cur"]] = ("timeout", time.time() - w["t0"], "z3", f"hard kill after {hard:.0f}s")
                rest = [i for i in w["chunk"] if i not in results]
                workers.remove(w)
                if rest:
                    spawn(rest)
        time.sleep(0.005)
    return results


def discharge(obs, timeout_s=30, jobs=None, modes=("direct", "lin", "cvc5", "inst")):
    """fills ob.status / time / backend / detail"""
    jobs = jobs or int(os.environ.get("VERIF_JOBS", "16"))
    todo = list(range(len(obs)))
    for mode in modes:
        if not todo:
            break
        res = run_pool(obs, todo, timeout_s, mode, jobs)
        nxt = []
        for i in todo:
            st, t, be, det = res.get(i, ("unknown", 0.0, "z3", "no result"))
            ob = obs[i]
            ob.time += t
            if ob.status is None or st in ("unsat", "sat"):
                ob.status, ob.backend, ob.detail = st, be, det
            if st not in ("unsat", "sat"):
                nxt.append(i)
        todo = nxt
    return obs


def cross_confirm(obs, timeout_s=20, jobs=None):
    """second solver (thorough tier): every obligation that z3 discharged from a quantifier-free query is given to cvc5 as well
    (linearised text).  Records ob.meta['cvc5'] = 'unsat' | 'unknown' | 'sat'; returns (confirmed, unknown, disagreements)."""
    jobs = jobs or int(os.environ.get("VERIF_JOBS", "16"))
    idxs = [i for i, o in enumerate(obs) if o.status == "unsat" and o.backend in ("z3-qf", "z3-linearized") and o.hyps is not None and o.goal is not None
            and o.meta.get("theory") != "strings" and not has_quant(list(o.hyps) + [o.goal])]
    if not idxs:
        return 0, 0, []
    res = run_pool(obs, idxs, timeout_s, "cvc5", jobs)
    ok = unk = 0
    bad = []
    for i in idxs:
        st = res.get(i, ("unknown",))[0]
        obs[i].meta["cvc5"] = st
        if st == "unsat":
            ok += 1
        elif st == "sat":
            bad.append(obs[i].id)
        else:
            unk += 1
    return ok, unk, bad
