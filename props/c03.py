"""C03 -- extreme operating points are honoured exactly.

For every metric m in {tpr,fnr,tnr,fpr,topr,tonr}, configuration, method:  r <= 0  =>  count_m(th) = lowest achievable,
r >= 1  =>  count_m(th) = highest achievable, where count_m is given by the documented decision rule (spec), th is the value
returned by the real threshold_at_m(r, method=..) executed symbolically (inlined through _threshold_at_ratio and
_invert_increasing_function), for score arrays of unbounded length and symbolic easy counts.
"""
import numpy as np
from z3 import And, BoolVal, Implies, Not, Or

from vf import bounded as B
from vf import prims as P
from vf.engine import Oblig
from vf.proof import prove
from props import thr as TH

LEVEL = "proof"


def inv_array(run):
    """the (sorted) array handed to _invert_increasing_function"""
    try:
        outs = run.ex.locals["_invert_increasing_function"][-1]
        return outs[0].env["scores"]
    except Exception:
        return None


def add_facts(run, path, th):
    run.add_cnt_facts(path, th)
    a = inv_array(run)
    if a is not None and a.sym is not None:
        path.add(P.cnt_char(a.sym[0], a.sym[1], th))


def build(sizes=None, only=None):
    obs = []
    for metric in TH.METRICS:
        for sc, ec in B.CONFIGS:
            for method in TH.METHODS:
                tag = f"[{sc},{ec},{method}]"
                if only is not None and not any(f"/{metric}/" in i and i.endswith(tag) for i in only):
                    continue
                run = TH.ThrRun(metric, sc, ec, method, sizes)
                if not run.ok or run.th is None:
                    obs.append(Oblig(f"C03/{metric}/single-non-raising-path{tag}", [], BoolVal(False), "post", ("C03",)))
                    continue
                path = run.path
                add_facts(run, path, run.th)
                for end, cond, want in (("low", run.r <= 0, run.lo_c), ("high", run.r >= 1, run.hi_c)):
                    o = Oblig(f"C03/{metric}/extreme-{end}{tag}", path.pc, Implies(cond, run.count(run.th) == want), "post", ("C03",),
                              {"key": f"C03/{metric}/extreme-{end}[{sc},{ec}]",
                               "case": (lambda m, run=run, end=end: run.case(m, {"clause": "extreme", "end": end}))})
                    obs.append(o)
                for so in run.side:
                    so.id = f"C03/{metric}/safety:{so.id}{tag}"
                    so.props = ("C03", "C02")
                    obs.append(so)
    return obs


def oracle(case):
    s = TH.real_scores(case)
    r = case["r"]
    th = getattr(s, "threshold_at_" + case["metric"])(r, method=case["method"])
    n_rel, n_all, lo, hi = TH.pop_info(case)
    got = TH.counts_at(case, th)
    want = lo if r <= 0 else (hi if r >= 1 else None)
    if want is None:
        return None
    if got != want:
        real = getattr(s, case["metric"])(th)
        return (f"threshold_at_{case['metric']}({r!r}, method={case['method']!r}) = {th!r}: metric count {got}/{n_all} (library says {real!r}) "
                f"but the {'lowest' if r <= 0 else 'highest'} achievable is {want}/{n_all}  [pos={case['pos']}, neg={case['neg']}, easy=({case['ep']},{case['en']}), {case['sc']}/{case['ec']}]")
    return None


def replay(case):
    return oracle(case)


def bounded(chk):
    maxn = 4 if chk.tier == "quick" else 6
    easy = [(0, 0), (2, 0), (0, 3), (1, 2)] if chk.tier == "quick" else [(0, 0), (1, 0), (0, 1), (2, 0), (0, 3), (1, 2), (3, 3), (11, 0), (0, 20)]
    targets = [-0.5, 0.0, -0.0, 1.0, 1.5]
    chk.bounded["bound"] = f"all order types of pos+neg <= {maxn} scores, easy counts {easy}, 4 configurations, 6 metrics, 3 methods, targets {targets}"
    chk.bounded["rule"] = "enumerated; a case is non-trivial when the relevant class has at least one score"
    chk.bounded["exhaustive"] = True
    for pos, neg in B.order_types(maxn):
        for ep, en in easy:
            for sc, ec in B.CONFIGS:
                for metric in TH.METRICS:
                    base = {"clause": "extreme", "pos": pos, "neg": neg, "ep": ep, "en": en, "sc": sc, "ec": ec, "metric": metric}
                    if TH.pop_info(base)[0] == 0:
                        continue
                    for method in TH.METHODS:
                        for r in targets:
                            case = dict(base, method=method, r=r)
                            res = oracle(case)
                            chk.count("extreme", 1, 1)
                            if res:
                                end = "low" if r <= 0 else "high"
                                # floats: D2-type rounding of the easy-sample rescaling is a separate key
                                chk.violation("extreme", f"C03/{metric}/extreme-{end}[{sc},{ec}]", res, B.jsonable(case))


def run(chk):
    prove(chk, build, ground_sizes=[(1, 1, 0, 0), (1, 1, 2, 3), (2, 1, 0, 0), (1, 2, 0, 0), (2, 2, 1, 1), (2, 1, 2, 0), (1, 2, 0, 3)], replay=replay)
    bounded(chk)
