"""C11 -- bootstrap samples are well-formed resamples of their source.

Scores._sampling_method, _sample_indices and bootstrap_sample are executed symbolically for every (sampling method, stratification,
smoothing) configuration; the RNG calls are primitives with *range* contracts only (binomial in [0,n], poisson >= 0, choice in
[0,n) / distinct without replacement, all from the global np.random state).  Proved for every RNG outcome:
  flags        score_class / equal_class copied into the sample
  membership   every sampled score is self.pos[i] / self.neg[i] with i in range (smoothing off)
  ordered      the sample satisfies the class invariant: np.sort in the constructor, or -- single pass, is_sorted=True -- the index
               array from np.repeat(np.arange) is non-decreasing and the source is ascending (lemma L6)
  sizes        replacement: hard+easy counts add up to nb_all_samples, and at least one scored positive / negative whenever the
               source has one; by_label: the four strata equal the source's; proportion: max(int(ratio*n),1) distinct positions
  dynamic      'dynamic' resolves to replacement iff a class has < 100 scores or smoothing is on
  errors       unknown strings / missing ratio / smoothing with single pass raise ValueError; a callable is applied to self
  mean         single pass stratified by label: each score is drawn with n*p = 1 expected multiplicity (ghost mean of the binomial /
               poisson primitive)
Distributional claims beyond this are bounded (seeded statistical checks with a 1e-9 false-alarm budget).
"""
import os

import numpy as np
from z3 import And, BoolVal, If, Implies, Int, Not, Or, Real, ToReal

from vf import bounded as B
from vf import prims as P
from vf.common import label, mk_scores, new_exec, run_method
from vf.engine import Obj, Oblig, Path, PyRaise, T, same_size, toI, toR
from vf.proof import prove

LEVEL = "other"
CFGS = [("replacement", None, False), ("replacement", "by_label", False), ("replacement", None, True), ("single_pass", None, False), ("single_pass", "by_label", False),
        ("proportion", None, False)]


def config(ex, sm, strat, smooth, ratio=None):
    return Obj("BootstrapConfig", nb_samples=1000, bootstrap_method="bca", sampling_method=sm, stratified_sampling=strat, smoothing=smooth, ratio=ratio)


def build(sizes=None, only=None, part=None):
    obs = []
    if sizes is not None:
        return obs
    for sm, strat, smooth in CFGS:
        if part is not None and part != sm:
            continue
        for sc, ec in (("pos", "pos"), ("neg", "pos")):
            try:
                obs += build_sample(sm, strat, smooth, sc, ec)
            except Exception as e:
                if os.environ.get("VERIF_DEBUG"):
                    import traceback
                    traceback.print_exc()
                obs.append(Oblig(f"C11/executes[{sm},{strat},smoothing={smooth},{sc}]", [], BoolVal(False), "post", ("C11",), {"engine_error": f"{type(e).__name__}: {e}"}))
    if part in (None, "misc"):
        obs += build_misc()
    return obs


PARTS = ["replacement", "single_pass", "proportion", "misc"]


def build_sample(sm, strat, smooth, sc, ec):
    obs = []
    tag = f"[{sm},{strat},smoothing={smooth},{sc}/{ec}]"
    ex = new_exec()
    path = Path()
    me = mk_scores(ex, path, sc, ec, min_pos=1, min_neg=1)
    ratio = Real("ratio")
    if sm == "proportion":
        path.add(And(ratio > 0, ratio < 1))
    cfg = config(ex, sm, strat, smooth, ratio if sm == "proportion" else None)
    outs = run_method(ex, "Scores", "bootstrap_sample", me, [], {"config": cfg}, path=path)
    live = [o for o in outs if not o.raised]
    npos, nneg = toI(me.attrs["pos"].axes[0].size), toI(me.attrs["neg"].axes[0].size)
    ep, en = toI(me.attrs["nb_easy_pos"]), toI(me.attrs["nb_easy_neg"])

    def ob(name, goal, hyps, kind="post", meta=None):
        obs.append(Oblig(f"C11/{name}{tag}", hyps, goal, kind, ("C11",), dict({"key": f"C11/{name}[{sm},{strat}]"}, **(meta or {}))))
    ob("returns-on-at-least-one-path-and-never-raises", BoolVal(len(live) >= 1 and len(live) == len(outs)), [], "post", {"paths": len(outs)})
    for k, o in enumerate(live):
        s, hy = o.value, o.path.pc
        pt = f"/path{k}" if len(live) > 1 else ""
        ok = isinstance(s, Obj) and s.cls == "Scores" and isinstance(s.attrs.get("pos"), T) and isinstance(s.attrs.get("neg"), T)
        ob(f"returns-Scores{pt}", BoolVal(bool(ok)), [], "shape")
        if not ok:
            continue
        ob(f"flags-copied{pt}", BoolVal(s.attrs["score_class"] == label(ex, sc) and s.attrs["equal_class"] == label(ex, ec)), [], "post")
        sp, sn = s.attrs["pos"], s.attrs["neg"]
        lp, ln = toI(sp.axes[0].size), toI(sn.axes[0].size)
        sep, sen = toI(s.attrs["nb_easy_pos"]), toI(s.attrs["nb_easy_neg"])
        i, j = ex.new_int("i"), ex.new_int("j")
        # class invariant of the sample
        for nm, arr, L in (("pos", sp, lp), ("neg", sn, ln)):
            if arr.facts.get("sorted"):
                ob(f"ordered/{nm}-sorted-by-the-constructor{pt}", BoolVal(True), [], "invariant")
            else:
                ob(f"ordered/{nm}-ascending-at-the-is_sorted=True-site{pt}", Implies(And(0 <= i, i <= j, j < L), toR(arr.elem(i)) <= toR(arr.elem(j))), hy, "invariant")
        ob(f"sizes/easy-counts-non-negative{pt}", And(sep >= 0, sen >= 0), hy)
        if not smooth:
            # membership: the sample's arrays before sorting are advanced-index reads of the source (bounds obligations are emitted
            # by the engine); through np.sort the multiset is preserved (assumed contract).  State it on the pre-sort tensors.
            for nm, arr, src in (("pos", sp, me.attrs["pos"]), ("neg", sn, me.attrs["neg"])):
                pre = getattr(arr, "sorted_of", arr)
                w = ex.new_int("w")
                n_src = toI(src.axes[0].size)
                # witness: the index array the code used
                idxs = [t for t in (o.env.get(f"{nm}_idx"),) if isinstance(t, T)]
                if idxs:
                    idx = idxs[0]
                    ob(f"membership/{nm}-scores-are-source-scores-of-the-same-class{pt}",
                       Implies(And(0 <= w, w < toI(pre.axes[0].size)), And(0 <= toI(idx.elem(w)), toI(idx.elem(w)) < n_src, toR(pre.elem(w)) == toR(src.elem(idx.elem(w))))), hy)
                elif getattr(pre, "choice_of", None) is not None:
                    a_, idx, repl = pre.choice_of
                    ob(f"membership/{nm}-scores-are-source-scores-of-the-same-class{pt}",
                       Implies(And(0 <= w, w < toI(pre.axes[0].size)), And(BoolVal(a_ is src), 0 <= toI(idx.elem(w)), toI(idx.elem(w)) < n_src, toR(pre.elem(w)) == toR(src.elem(idx.elem(w))))), hy)
                    ob(f"proportion/{nm}-drawn-without-replacement{pt}", BoolVal(repl is False), [], "post")
                else:
                    ob(f"membership/{nm}-witness{pt}", BoolVal(False), [], "post", {"engine_error": "no index witness found"})
        if sm == "replacement":
            ob(f"sizes/total-sample-count-preserved{pt}", lp + sep + ln + sen == npos + ep + nneg + en, hy)
            ob(f"sizes/at-least-one-scored-positive-and-negative{pt}", Implies(npos + ep + nneg + en >= 2, And(lp >= 1, ln >= 1)), hy)
        if sm == "single_pass":
            ob(f"sizes/at-least-one-scored-positive-and-negative{pt}", And(lp >= 1, ln >= 1), hy)
        if strat == "by_label":
            if sm == "replacement":
                ob(f"by_label/four-strata-preserved{pt}", And(lp == npos, ln == nneg, sep == ep, sen == en), hy)
            else:
                ob(f"by_label/easy-strata-preserved{pt}", And(sep == ep, sen == en), hy)
        if sm == "proportion":
            tr = lambda v: If(v >= 0, __import__("z3").ToInt(v), -__import__("z3").ToInt(-v))
            ob(f"proportion/sizes{pt}", And(lp == If(tr(ratio * ToReal(npos)) >= 1, tr(ratio * ToReal(npos)), 1), ln == If(tr(ratio * ToReal(nneg)) >= 1, tr(ratio * ToReal(nneg)), 1),
                                              sep == tr(ratio * ToReal(ep)), sen == tr(ratio * ToReal(en))), hy)
        if sm == "single_pass" and strat == "by_label":
            # ghost mean of the multiplicity draws: binomial(n, p) / poisson(n p) have mean n*p, which must be 1 per source score
            for call in getattr(ex, "rng_log", []):
                if call["name"] == "np.random.binomial" and call.get("size") is not None:
                    ob(f"mean/binomial-multiplicity-has-mean-one{pt}#{len(obs)}", toR(call["n"]) * toR(call["p"]) == 1, hy)
                if call["name"] == "np.random.poisson" and call.get("size") is not None:
                    ob(f"mean/poisson-multiplicity-has-mean-one{pt}#{len(obs)}", toR(call["lam"]) == 1, hy)
    # reproducibility: only the global RandomState
    names = {c for c in ex.rng_calls}
    ob("rng/only-global-np.random-functions", BoolVal(names <= {"np.random.binomial", "np.random.poisson", "np.random.choice", "np.random.normal"} and bool(names)), [], "structural", {"calls": sorted(names)})
    for so in ex.obligs:
        so.id = f"C11/safety:{so.id}#{len(obs)}{tag}"
        so.props = ("C11",)
        obs.append(so)
    return obs


def build_misc():
    obs = []

    def mk(name, goal, meta=None):
        obs.append(Oblig(f"C11/{name}", [], goal, "post", ("C11",), meta or {}))
    # dynamic resolution
    for smooth in (False, True):
        ex = new_exec()
        path = Path()
        me = mk_scores(ex, path, "pos", "pos")
        cfg = config(ex, "dynamic", None, smooth)
        try:
            outs = run_method(ex, "Scores", "_sampling_method", me, [cfg], path=path)
            npos, nneg = toI(me.attrs["pos"].axes[0].size), toI(me.attrs["neg"].axes[0].size)
            for o in outs:
                small = Or(npos < 100, nneg < 100, BoolVal(smooth))
                want = "replacement" if o.value == "replacement" else "single_pass"
                obs.append(Oblig(f"C11/dynamic/resolves-to-{want}-exactly-by-the-documented-rule[smoothing={smooth}]", o.path.pc,
                                 small if o.value == "replacement" else Not(small), "post", ("C11",)))
            mk(f"dynamic/returns-a-builtin-method[smoothing={smooth}]", BoolVal(all(o.value in ("replacement", "single_pass") for o in outs) and len(outs) >= 1))
        except Exception as e:
            mk(f"dynamic/executes[smoothing={smooth}]", BoolVal(False), {"engine_error": f"{type(e).__name__}: {e}"})
    # error paths and the callable sampler
    cases = [("unknown-string-raises", "bogus", None, False, None, "ValueError"), ("proportion-without-ratio-raises", "proportion", None, False, None, "ValueError"),
             ("smoothing-with-single_pass-raises", "single_pass", None, True, None, "ValueError"), ("non-string-non-callable-raises", 17, None, False, None, "ValueError")]
    for name, sm, strat, smooth, ratio, exc in cases:
        ex = new_exec()
        path = Path()
        me = mk_scores(ex, path, "pos", "pos", min_pos=1, min_neg=1)
        try:
            outs = run_method(ex, "Scores", "bootstrap_sample", me, [], {"config": config(ex, sm, strat, smooth, ratio)}, path=path)
            mk(f"errors/{name}", BoolVal(bool(outs) and all(o.raised and exc in str(o.value.exc) for o in outs)))
        except Exception as e:
            mk(f"errors/{name}", BoolVal(False), {"engine_error": f"{type(e).__name__}: {e}"})
    ex = new_exec()
    path = Path()
    me = mk_scores(ex, path, "pos", "pos", min_pos=1, min_neg=1)
    seen = []
    marker = Obj("Scores", marker=True)
    fn = ("pyfunc", lambda ex_, p_, src: (seen.append(src), marker)[1])
    PRIM_CALLABLE = True
    try:
        outs = run_method(ex, "Scores", "bootstrap_sample", me, [], {"config": config(ex, fn, None, False)}, path=path)
        mk("callable-sampler-is-applied-to-self-and-its-result-returned", BoolVal(len(outs) == 1 and outs[0].value is marker and len(seen) == 1 and seen[0] is me))
    except Exception as e:
        mk("callable-sampler-is-applied-to-self-and-its-result-returned", BoolVal(False), {"engine_error": f"{type(e).__name__}: {e}"})
    return obs


# ----------------------------------------------------------------------------------------------------------------
# bounded layer (seeded; statistical clauses with a fixed false-alarm budget)

def oracle(case):
    from vf.framework import real_repo
    sa = real_repo()
    from score_analysis import BootstrapConfig, Scores
    rng = np.random.RandomState(case["seed"])
    npos, nneg, ep, en = case["npos"], case["nneg"], case["ep"], case["en"]
    pos = np.sort(rng.normal(1, 1, size=npos)) if not case.get("ties") else rng.choice([0.0, 0.5, 1.0], size=npos)
    neg = rng.normal(0, 1, size=nneg) + 10.0 if case.get("disjoint") else rng.normal(0, 1, size=nneg)
    sc, ec = case["sc"], case["ec"]
    s = Scores(pos, neg, nb_easy_pos=ep, nb_easy_neg=en, score_class=sc, equal_class=ec)
    sm, strat, smooth = case["cfg"]
    cfg = BootstrapConfig(sampling_method=sm, stratified_sampling=strat, smoothing=smooth, ratio=case.get("ratio"))
    info = f"[{case}]"
    np.random.seed(case["seed"] + 7)
    R = case["reps"]
    mult_pos = np.zeros(npos)
    tot_pos = tot_neg = tot_ep = tot_en = 0
    corrected = 0
    for rep in range(R):
        b = s.bootstrap_sample(cfg)
        if b.score_class != s.score_class or b.equal_class != s.equal_class:
            return f"flags not copied {info}"
        if not smooth:
            if not (np.all(np.isin(b.pos, s.pos)) and np.all(np.isin(b.neg, s.neg))):
                return f"sample contains a score that is not a source score of the same class {info}"
        if np.any(np.diff(b.pos) < 0) or np.any(np.diff(b.neg) < 0):
            return f"sample arrays are not ascending (metrics would not equal direct counting) {info}"
        t = float(np.median(np.concatenate([s.pos, s.neg])))
        if np.asarray(b.cm(t).matrix).tolist() != B.cm_oracle(list(b.pos), list(b.neg), b.nb_easy_pos, b.nb_easy_neg, sc, ec, t):
            return f"metrics of the sample do not equal direct counting {info}"
        if (npos and len(b.pos) == 0) or (nneg and len(b.neg) == 0):
            return f"sample lacks a scored positive / negative although the source has one {info}"
        if sm in ("replacement", "dynamic") and (sm == "replacement" or npos < 100 or nneg < 100 or smooth):
            if len(b.pos) + len(b.neg) + b.nb_easy_pos + b.nb_easy_neg != s.nb_all_samples:
                return f"replacement sampling changed the total sample count: {len(b.pos)}+{len(b.neg)}+{b.nb_easy_pos}+{b.nb_easy_neg} != {s.nb_all_samples} {info}"
            if strat == "by_label" and (len(b.pos), len(b.neg), b.nb_easy_pos, b.nb_easy_neg) != (npos, nneg, ep, en):
                return f"by_label stratification did not preserve the four strata {info}"
        if sm == "proportion":
            r = case["ratio"]
            if (len(b.pos), len(b.neg)) != (max(int(r * npos), 1), max(int(r * nneg), 1)) or (b.nb_easy_pos, b.nb_easy_neg) != (int(r * ep), int(r * en)):
                return f"proportion sampling sizes wrong {info}"
            if not case.get("ties") and (len(set(b.pos)) != len(b.pos) or len(set(b.neg)) != len(b.neg)):
                return f"proportion sampling drew a score twice {info}"
        if not smooth and not case.get("ties"):
            mult_pos += np.array([np.sum(b.pos == v) for v in s.pos])
        tot_pos += len(b.pos) + b.nb_easy_pos
        tot_ep += b.nb_easy_pos
        tot_neg += len(b.neg)
    # unbiasedness (large source so that the at-least-one corrections have negligible probability): z-test at 1e-9 two-sided => |z| < 6.2
    if case.get("stat") and not smooth and sm != "proportion":
        exp_mult = 1.0
        z = (mult_pos.sum() / (R * npos) - exp_mult) * np.sqrt(R * npos) / np.sqrt(1.0 + (0 if strat == "by_label" else 1.0))
        if abs(z) > 6.5:
            return f"mean multiplicity of a positive score {mult_pos.sum() / (R * npos):.4f} is not 1 (z={z:.1f}) {info}"
        if mult_pos.min() == 0 and R * 1.0 > 40:
            return f"a source score was never drawn in {R} samples {info}"
        zp = (tot_pos / R - (npos + ep)) / np.sqrt(max(1e-9, (npos + ep) * (nneg + en) / (npos + ep + nneg + en)) / R) if strat != "by_label" else 0.0
        if abs(zp) > 6.5:
            return f"mean number of positives {tot_pos / R:.2f} differs from the source's {npos + ep} (z={zp:.1f}) {info}"
        if sm == "single_pass" or (sm == "dynamic" and npos >= 100 and nneg >= 100):
            zn = (tot_neg / R - nneg) / np.sqrt(nneg * (2.0 if strat != "by_label" else 1.0) / R)
            if abs(zn) > 6.5:
                return f"mean number of scored negatives {tot_neg / R:.2f} differs from the source's {nneg} (z={zn:.1f}) {info}"
    return None


def replay(case):
    return oracle(case)


def eval_items(items):
    counts, viols = {"bootstrap_sample": [0, 0]}, []
    for case in items:
        try:
            res = oracle(case)
        except Exception as e:
            res = f"bootstrap_sample raised {type(e).__name__}: {e} for {case}"
        counts["bootstrap_sample"][0] += case["reps"]
        counts["bootstrap_sample"][1] += 1
        if res:
            kind = " ".join(res.split(" ")[:4])
            # explicit single_pass on tiny data can leave a class empty: recorded finding D4 (see known_findings.json)
            key = f"C11/bounded/{case['cfg'][0]}/{kind[:50]}"
            viols.append(("bootstrap_sample", key, res, B.jsonable(case)))
    return counts, viols, []


def bounded(chk):
    from vf.framework import run_bounded
    items = []
    seeds = range(2 if chk.tier == "quick" else 6)
    small = [("replacement", None, False), ("replacement", "by_label", False), ("replacement", None, True), ("dynamic", None, False), ("dynamic", "by_label", False),
             ("dynamic", None, True), ("proportion", None, False)]
    for seed in seeds:
        for cfg in small + [("single_pass", None, False), ("single_pass", "by_label", False)]:
            for (npos, nneg, ep, en) in ((1, 1, 0, 0), (3, 2, 0, 0), (2, 5, 3, 1), (6, 4, 0, 7), (1, 4, 9, 0)):
                for sc, ec in (("pos", "pos"), ("neg", "neg")):
                    items.append({"npos": npos, "nneg": nneg, "ep": ep, "en": en, "sc": sc, "ec": ec, "cfg": cfg, "seed": chk.seed * 100 + seed, "reps": 60,
                                  "ratio": 0.6 if cfg[0] == "proportion" else None, "ties": seed % 2 == 1})
        for cfg in (("single_pass", None, False), ("single_pass", "by_label", False), ("dynamic", None, False), ("dynamic", "by_label", False), ("replacement", None, False)):
            items.append({"npos": 130, "nneg": 150, "ep": 40, "en": 0, "sc": "pos", "ec": "pos", "cfg": cfg, "seed": chk.seed * 100 + seed, "reps": 150, "stat": True})
            items.append({"npos": 150, "nneg": 120, "ep": 0, "en": 0, "sc": "neg", "ec": "pos", "cfg": cfg, "seed": chk.seed * 100 + seed, "reps": 150, "stat": True})
        # below the dynamic switch by scored samples, above it once easy samples are counted: still replacement sampling
        for cfg in (("dynamic", None, False), ("dynamic", "by_label", False)):
            items.append({"npos": 60, "nneg": 70, "ep": 80, "en": 60, "sc": "pos", "ec": "neg", "cfg": cfg, "seed": chk.seed * 100 + seed, "reps": 40})
    chk.bounded["bound"] = "60 / 70 scored + 80 / 60 easy samples under 'dynamic' (the switch counts scored samples only); sources with 1..6 scores per class (all built-in configurations reachable through 'dynamic', replacement, proportion; ties on odd seeds) x 60 samples each; sources with 120..150 scores per class x 150 samples for single_pass / dynamic / replacement with z-tests (|z| < 6.5, false-alarm rate < 1e-9 per test) on mean multiplicity and class sizes"
    chk.bounded["rule"] = "seeded; evaluations counts drawn samples, distinct_nontrivial counts (source, configuration, seed) cases"
    run_bounded(chk, items, eval_items)
    chk.samples.append({"bounded-case": items[3]})


def run(chk):
    prove(chk, build, replay=replay, parts=PARTS)
    bounded(chk)
    chk.extra["explanation"] = ("proved for every RNG outcome (range contracts): flags, membership, ordering (incl. the is_sorted=True fast path), size/strata equations, at-least-one, dynamic rule, "
                                "error paths, mean-one multiplicity for the label-stratified single pass. Bounded/statistical: unbiasedness (mean multiplicity, class sizes, reachability) "
                                "on seeded runs. Explicit single_pass on small sources could leave a class empty on the pinned tree (repaired, see known_findings.json: fixed 81117e9).")
