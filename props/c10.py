"""C10 -- queries are vectorised elementwise, shape-preserving and side-effect free.

Proof obligations (per public deterministic query of Scores, all four configurations):
  elementwise   the generic element of the result for an argument of abstract shape X equals the scalar execution of the same
                body on that element (two symbolic executions of the real source; equality discharged by z3)
  shape         X in -> X(+(2,2)) out; scalar in -> plain scalar out (the np.isscalar / .item() branches)
  frame         (structural, from the store log of the symbolic execution) no store into an attribute of a pre-existing object,
                no in-place operation on an array whose provenance is a parameter or an attribute
  determinism   (structural) no RNG primitive is reachable
  aliases       (structural) each alias is a single forwarding call with the same arguments
"""
import numpy as np
from z3 import And, BoolVal, Int, Not, Real, substitute

from vf import bounded as B
from vf.common import mk_scores, new_exec, run_method, xtensor
from vf.engine import FV, Obj, Oblig, Path, T, is_sym, nan_of, same_size, toB, toI, toR
from vf.proof import prove
from props import thr as TH

LEVEL = "proof"
RATE_QUERIES = ["tpr", "fnr", "tnr", "fpr", "topr", "tonr"]


def scal(v):
    if isinstance(v, T) and v.ndim == 0:
        return v.elem()
    return v


def flat_values(res, x=None):
    """list of (label, scalar value) making up a result (cm -> 4 cells, rate -> 1 value, threshold -> 1 value)"""
    if isinstance(res, Obj) and res.cls == "ConfusionMatrix":
        m = res.attrs["matrix"]
        out = []
        for a in (0, 1):
            for b in (0, 1):
                out.append((f"cell{a}{b}", m.elem(x, a, b) if x is not None else m.elem(a, b)))
        return out
    if isinstance(res, T):
        if x is not None and res.ndim == 1:
            return [("value", res.elem(x))]
        if x is None and res.ndim == 0:
            return [("value", res.elem())]
        return None
    if x is None:
        return [("value", res)]
    return None


def same_val(a, b):
    na, nb = nan_of(a), nan_of(b)
    eqn = (na == nb) if not (is_sym(na) or is_sym(nb)) else (toB(na) == toB(nb))
    va, vb = (a.v if isinstance(a, FV) else a), (b.v if isinstance(b, FV) else b)
    if isinstance(va, bool) or isinstance(vb, bool) or (is_sym(va) and va.sort().kind() == 1):
        return And(BoolVal(eqn) if isinstance(eqn, bool) else eqn, toB(va) == toB(vb))
    return And(BoolVal(eqn) if isinstance(eqn, bool) else eqn, toR(va) == toR(vb))


def build(sizes=None, only=None, part=None):
    obs = []
    if sizes is not None:
        return obs
    queries = [("cm", {})] + [(q, {}) for q in RATE_QUERIES] + [("threshold_at_" + m, {"method": meth}) for m in TH.METRICS for meth in TH.METHODS]
    for sc, ec in B.CONFIGS:
        if part is not None and part != f"{sc},{ec}":
            continue
        for q, kw in queries:
            tag = f"[{q}{',' + kw['method'] if kw else ''},{sc},{ec}]"
            obs += build_query(q, kw, sc, ec, tag)
    if part in (None, "misc"):
        from props.c02 import build_alias
        for o in build_alias():
            o.id = o.id.replace("C02/", "C10/")
            o.props = ("C10",)
            obs.append(o)
    return obs


PARTS = [f"{sc},{ec}" for sc, ec in B.CONFIGS] + ["misc"]


def build_query(q, kw, sc, ec, tag):
    obs = []

    def ob(name, goal, hyps, kind="post", meta=None):
        obs.append(Oblig(f"C10/{name}{tag}", hyps, goal, kind, ("C10",), dict({"key": f"C10/{name}[{q}]"}, **(meta or {}))))
    try:
        # scalar execution
        ex1 = new_exec()
        p1 = Path()
        me1 = mk_scores(ex1, p1, sc, ec, min_pos=1, min_neg=1)
        t = Real("arg")
        o1 = run_method(ex1, "Scores", q, me1, [t], kw, path=p1)
        # X execution on the *same* symbolic object (same z3 symbols: arrays are created with the same fresh counter order)
        ex2 = new_exec()
        p2 = Path()
        me2 = mk_scores(ex2, p2, sc, ec, min_pos=1, min_neg=1)
        arg, TH_, X = xtensor(ex2, "arg")
        x = ex2.new_int("x")
        p2.add(And(0 <= x, x < toI(X.size)))
        o2 = run_method(ex2, "Scores", q, me2, [arg], kw, path=p2)
    except Exception as e:       # engine limitation on a changed body: undecided, never a verdict
        ob("executes", BoolVal(False), [], meta={"engine_error": f"{type(e).__name__}: {e}"})
        return obs
    l1, l2 = [o for o in o1 if not o.raised], [o for o in o2 if not o.raised]
    if len(l1) != 1 or len(l2) != 1 or len(o1) != 1 or len(o2) != 1:
        ob("single-path", BoolVal(False), [], meta={"engine_error": "multiple paths"})
        return obs
    r1, r2 = l1[0].value, l2[0].value
    f1, f2 = flat_values(r1), flat_values(r2, x)
    ob("shape/scalar-in-plain-scalar-out", BoolVal(f1 is not None and (q == "cm" or not isinstance(r1, T))), [], "shape")
    okx = f2 is not None and ((q == "cm" and same_size(r2.attrs["matrix"].axes[0].size, X.size) and r2.attrs["matrix"].ndim == 3) or
                              (q != "cm" and isinstance(r2, T) and r2.ndim == 1 and same_size(r2.axes[0].size, X.size)))
    ob("shape/X-in-X-out", BoolVal(bool(okx)), [], "shape")
    if f1 is not None and okx:
        # rename the symbols of run 1 to those of run 2 (same creation order => map by position)
        sub = symbol_map(me1, me2) + [(t, TH_[x])]
        hy = l2[0].path.pc
        for (n1, v1), (n2, v2) in zip(f1, f2):
            v1s = subst_val(v1, sub)
            ob(f"elementwise/{n1}", same_val(v2, v1s), hy)
    for ex, which in ((ex1, "scalar"), (ex2, "X")):
        bad = [s for s in ex.stores if not (s[1] == "fresh" or s[1].startswith("view:fresh"))]
        ob(f"frame/no-mutation-of-self-or-arguments({which})", BoolVal(not bad), [], "frame", {"stores": [str(b) for b in bad]})
        ob(f"determinism/no-rng-reachable({which})", BoolVal(not ex.rng_calls), [], "structural", {"rng": list(ex.rng_calls)})
        for so in ex.obligs:
            so.id = f"C10/safety({which}):{so.id}#{len(obs)}{tag}"
            so.props = ("C10",)
            obs.append(so)
    return obs


def symbol_map(me1, me2):
    sub = []
    for a in ("pos", "neg"):
        A1, N1 = me1.attrs[a].sym
        A2, N2 = me2.attrs[a].sym
        sub += [(A1, A2), (N1, N2)]
    for a in ("nb_easy_pos", "nb_easy_neg"):
        if is_sym(me1.attrs[a]) and not me1.attrs[a].eq(me2.attrs[a]):
            sub.append((me1.attrs[a], me2.attrs[a]))
    return sub


def subst_val(v, sub):
    if isinstance(v, FV):
        return FV(subst_val(v.v, sub), subst_val(v.nan, sub) if is_sym(v.nan) else v.nan)
    if is_sym(v):
        return substitute(v, *sub)
    return v


# ----------------------------------------------------------------------------------------------------------------
# bounded layer

SHAPES = [(), (0,), (3,), (2, 0), (2, 3), (2, 1, 2)]


def oracle(case):
    from vf.framework import real_repo
    sa = real_repo()
    from score_analysis.scores import pointwise_cm
    pos, neg = np.array(case["pos"], dtype=float), np.array(case["neg"], dtype=float)
    s = sa.Scores(pos, neg, nb_easy_pos=case["ep"], nb_easy_neg=case["en"], score_class=case["sc"], equal_class=case["ec"])
    shape = tuple(case["shape"])
    rng = np.random.RandomState(case.get("seed", 0))
    n = int(np.prod(shape)) if shape else 1
    vals = np.concatenate([pos, neg, [0.25, 9.0]])
    thr = rng.choice(vals, size=shape) + rng.choice([0.0, 0.5, -0.5], size=shape) if shape != () else float(vals[0])
    tgt = rng.choice([-0.1, 0.0, 0.2, 0.5, 0.77, 1.0, 1.2], size=shape) if shape != () else 0.4
    snap = lambda: (s.pos.copy(), s.neg.copy(), s.nb_easy_pos, s.nb_easy_neg, s.score_class, s.equal_class)
    before = snap()

    def same_snap(a, b):
        return np.array_equal(a[0], b[0]) and np.array_equal(a[1], b[1]) and a[2:] == b[2:]
    queries = [("cm", thr, {})] + [(q, thr, {}) for q in RATE_QUERIES + list(TH.ALIASES)] + \
              [("threshold_at_" + m, tgt, {"method": me}) for m in TH.METRICS + list(TH.ALIASES) for me in TH.METHODS]
    for q, arg, kw in queries:
        a = np.array(arg, dtype=float) if shape != () else arg
        if shape != ():
            a.setflags(write=False)
            a0 = a.copy()
        r = getattr(s, q)(a, **kw)
        r2 = getattr(s, q)(a, **kw)
        if shape != () and not np.array_equal(a, a0):
            return f"{q} modified its argument array"
        if not same_snap(before, snap()):
            return f"{q} modified the Scores object"
        v = np.asarray(r.matrix if q == "cm" else r)
        v2 = np.asarray(r2.matrix if q == "cm" else r2)
        if not np.array_equal(v, v2, equal_nan=True):
            return f"{q}: repeated call returned a different result"
        want_shape = shape + ((2, 2) if q == "cm" else ())
        if v.shape != want_shape:
            return f"{q}({'array of shape ' + str(shape) if shape != () else 'scalar'}) has shape {v.shape}, expected {want_shape}"
        if shape == () and q != "cm" and not isinstance(r, (float, int)):
            return f"{q}(scalar) returned {type(r).__name__}, not a plain scalar"
        if shape != ():
            for idx in np.ndindex(*shape):
                e = getattr(s, q)(float(a[idx]), **kw)
                e = np.asarray(e.matrix if q == "cm" else e)
                if not np.array_equal(v[idx], e, equal_nan=True):
                    return f"{q}: element {idx} of the vectorised result {v[idx].tolist()} differs from the scalar call {e.tolist()} (arg {float(a[idx])!r}, kw {kw})"
        # histories: the same array object with new contents, and a result that the caller overwrote, must not influence later calls
        if shape != () and n > 0:
            val = lambda r_: np.array(np.asarray(r_.matrix if q == "cm" else r_), copy=True)
            fresh = sa.Scores(pos.copy(), neg.copy(), nb_easy_pos=case["ep"], nb_easy_neg=case["en"], score_class=case["sc"], equal_class=case["ec"])
            w = np.array(arg, dtype=float)
            alt = np.roll(w.reshape(-1), 1).reshape(shape) + (0.25 if q.startswith("threshold_at_") else 0.5)
            getattr(s, q)(w, **kw)
            w[...] = alt
            h2 = getattr(s, q)(w, **kw)
            e2 = val(getattr(fresh, q)(alt.copy(), **kw))
            if not np.array_equal(val(h2), e2, equal_nan=True):
                return f"{q}: after the caller changed the contents of the argument array in place, the call returned {val(h2).tolist()} instead of {e2.tolist()} (stale result)"
            tgt_arr = h2.matrix if q == "cm" else h2
            if isinstance(tgt_arr, np.ndarray) and tgt_arr.flags.writeable:
                tgt_arr[...] = -7
                h3 = val(getattr(s, q)(w, **kw))
                if not np.array_equal(h3, e2, equal_nan=True):
                    return f"{q}: after the caller overwrote the returned array, repeating the query returned {h3.tolist()} instead of {e2.tolist()}"
            if not same_snap(before, snap()):
                return f"{q} modified the Scores object"
        base = TH.ALIASES.get(q.replace("threshold_at_", ""))
        if base:
            tq = ("threshold_at_" if q.startswith("threshold_at_") else "") + base
            b = np.asarray(getattr(s, tq)(a, **kw))
            if not np.array_equal(v, b, equal_nan=True):
                return f"alias {q} differs from {tq}"
    # pointwise_cm shape
    labels = np.array([1] * len(pos) + [0] * len(neg))
    scores = np.concatenate([pos, neg])
    for sshape in ((len(scores),),) + (((2, len(scores) // 2),) if len(scores) % 2 == 0 and len(scores) else ()):
        lab, scr = labels.reshape(sshape), scores.reshape(sshape)
        t = np.array(thr, dtype=float)
        try:
            pw = pointwise_cm(lab, scr, t, score_class=case["sc"], equal_class=case["ec"])
        except Exception as e:
            return f"pointwise_cm raised {type(e).__name__}: {e} for scores shape {sshape}, threshold shape {shape}"
        if pw.shape != sshape + shape + (2, 2):
            return f"pointwise_cm shape {pw.shape}, expected {sshape + shape + (2, 2)}"
    return None


def replay(case):
    return oracle(case)


def eval_items(items):
    counts, viols = {"vectorised": [0, 0]}, []
    for case in items:
        res = oracle(case)
        counts["vectorised"][0] += 1
        counts["vectorised"][1] += 1 if case["shape"] else 0
        if res:
            key = "C10/bounded/" + ("pointwise_cm-size0" if res.startswith("pointwise_cm raised") and 0 in case["shape"] else res.split(":")[0].split(" ")[0].split("(")[0])
            viols.append(("vectorised", key, res + f" [pos={case['pos']} neg={case['neg']} easy=({case['ep']},{case['en']}) {case['sc']}/{case['ec']}]", B.jsonable(case)))
    return counts, viols, []


def bounded(chk):
    from vf.framework import run_bounded
    data = [([1.0, 2.0, 2.0, 4.0], [0.5, 2.0, 3.0], 0, 0), ([1.0, 3.0], [2.0, 2.0], 2, 1), ([5.0], [1.0, 2.0, 3.0], 0, 3), ([1, 2, 3], [2, 4], 1, 0)]
    if chk.tier == "thorough":
        data += [([0.1 * k for k in range(7)], [0.05 + 0.1 * k for k in range(5)], 3, 2), ([2.0, 2.0, 2.0], [2.0], 0, 0)]
    items = []
    for pos, neg, ep, en in data:
        for sc, ec in B.CONFIGS:
            for shape in SHAPES:
                items.append({"pos": pos, "neg": neg, "ep": ep, "en": en, "sc": sc, "ec": ec, "shape": list(shape), "seed": len(items)})
    chk.bounded["bound"] = f"{len(data)} datasets x 4 configurations x argument shapes {SHAPES}; every public deterministic query and alias; read-only flagged argument arrays; object snapshots; each vectorised element compared with the scalar call; two-step histories (argument array rewritten in place between calls, returned array overwritten by the caller)"
    chk.bounded["rule"] = "enumerated shapes x datasets; non-trivial = array-shaped argument"
    run_bounded(chk, items, eval_items)
    chk.samples.append({"bounded-case": items[7]})


def run(chk):
    prove(chk, build, replay=replay, parts=PARTS)
    bounded(chk)
