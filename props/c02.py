"""C02 -- threshold setting round-trips within one sample; the three interpolation methods are coherent.

Obligations per (metric, configuration), all in count space K = r * N_all against the documented decision rule:
  bracket        the metric's one-sided limits at the returned (linear) threshold bracket clip(K) within one sample
  tie-free       no sample equal to another (stated at the returned threshold): |count(th) - clip(K)| <= 1
  sample         'lower' / 'higher' return a sample score or a sentinel one float outside the score range
  order          metric(lower) <= metric(higher)
  convex         linear = (1-phi)*lower + phi*higher,  phi = fractional part of clip(K);   between: lies between them
  monotone       the (linear) threshold is monotone in r, direction by metric and score_class
  alias          the six acceptance/rejection aliases forward to their targets (structural)
"""
import math
from fractions import Fraction

import numpy as np
from z3 import And, BoolVal, If, Implies, Int, IntVal, Not, Or, Real, RealVal, ToInt, ToReal

from vf import bounded as B
from vf import prims as P
from vf.common import new_exec
from vf.engine import Oblig, Path, toI, toR
from vf.proof import prove
from props import thr as TH

LEVEL = "proof"


def zmin(a, b):
    return If(a <= b, a, b)


def zmax(a, b):
    return If(a >= b, a, b)


PARTS = TH.METRICS + ["misc"]


def build(sizes=None, only=None, part=None):
    from props import thr2
    obs = thr2.build(sizes, only, ("C02",), part)
    if sizes is None and only is None and part in (None, "misc"):
        obs += build_alias()
        # the statement speaks of the metric "as computed by the same Scores object": the count-space clauses above are about the
        # decision rule; Scores.cm's cell-by-cell contract (C01's) links the two and is re-discharged here so that this check is
        # closed under the contracts it uses (the rates as quotients of the cells are C04's obligations)
        from props import c01
        obs += c01.build_cm(None, "C02")
    return obs


def build_alias():
    """aliases: the body is a single forwarding call to the target with the same arguments (structural)"""
    import ast
    ex = new_exec()
    obs = []
    for al, tgt in TH.ALIASES.items():
        for prefix in ("", "threshold_at_"):
            name = prefix + al
            ok = False
            try:
                owner, fn = ex.find("Scores", name)
                body = [s for s in fn.body if not (isinstance(s, ast.Expr) and isinstance(s.value, ast.Constant))]
                if len(body) == 1 and isinstance(body[0], ast.Return) and isinstance(body[0].value, ast.Call):
                    call = body[0].value
                    f = call.func
                    params = [a.arg for a in fn.args.args[1:]] + [a.arg for a in fn.args.kwonlyargs]
                    passed = [ast.unparse(a) for a in call.args] + [ast.unparse(k.value) for k in call.keywords]
                    kwnames = [k.arg for k in call.keywords]
                    ok = (isinstance(f, ast.Attribute) and isinstance(f.value, ast.Name) and f.value.id == "self"
                          and f.attr == prefix + tgt and passed == params
                          and (prefix == "" or set(kwnames) <= {tgt, "method"} and "method" in kwnames))
            except KeyError:
                ok = False
            obs.append(Oblig(f"C02/alias/{name}-forwards-to-{prefix + tgt}", [], BoolVal(bool(ok)), "structural", ("C02", "C10")))
    return obs


# ----------------------------------------------------------------------------------------------------------------
# executable rendering

ULP_TOL = 8


def close(a, b, ulps=ULP_TOL):
    if a == b:
        return True
    return abs(a - b) <= ulps * np.spacing(max(abs(a), abs(b)))


def oracle(case):
    s = TH.real_scores(case)
    f = getattr(s, "threshold_at_" + case["metric"])
    r = case["r"]
    n_rel, n_all, lo_c, hi_c = TH.pop_info(case)
    info = f"[{case['metric']} r={r!r} pos={case['pos']} neg={case['neg']} easy=({case['ep']},{case['en']}) {case['sc']}/{case['ec']}]"
    cl = case["clause"]
    K = Fraction(r) * n_all
    Kc = min(max(K, lo_c), hi_c)
    if cl in ("bracket", "tie-free-within-one-sample"):
        th = f(r)
        lims = [TH.counts_at(case, th, "below"), TH.counts_at(case, th, "above")]
        eps = Fraction(1, 10**9) * n_all          # the float target r is not exactly k/N
        # "that metric, as computed by the same Scores object": the object's own rate at the returned threshold is the count by the
        # documented rule over the whole population (easy samples included); Scores.cm's own contract is C01's obligation, this
        # is the call-site use of it
        own = float(getattr(s, case["metric"])(th))
        if abs(own * n_all - TH.counts_at(case, th)) > 1e-9 * n_all:
            return f"the object's own {case['metric']}({th!r}) = {own!r} is not the count by the documented rule {TH.counts_at(case, th)}/{n_all} {info}"
        if not (min(lims) - 1 - eps <= Kc <= max(lims) + 1 + eps):
            return f"threshold {th!r}: one-sided metric counts {lims} do not bracket clip(r*N)={float(Kc)} within one sample {info}"
        allv = {"tpr": case["pos"], "fnr": case["pos"], "tnr": case["neg"], "fpr": case["neg"]}.get(case["metric"], case["pos"] + case["neg"])
        if len(set(allv)) == len(allv):
            c = TH.counts_at(case, th)
            # a few ulp: interpolation may land one ulp off a score, which moves the count by one more sample
            if abs(c - Kc) > 1 + eps:
                c2 = [TH.counts_at(case, t2) for t2 in (np.nextafter(th, -np.inf), np.nextafter(th, np.inf))]
                if all(abs(x - Kc) > 1 + eps for x in c2):
                    return f"tie-free: metric count {c} at threshold {th!r} is more than one sample from clip(r*N)={float(Kc)} {info}"
        return None
    if cl in ("lower-is-sample-or-sentinel", "higher-is-sample-or-sentinel", "metric(lower)<=metric(higher)", "linear-is-convex-combination",
              "linear-between-lower-and-higher", "methods"):
        tl, th_, tt = f(r, method="lower"), f(r, method="higher"), f(r)
        arr = sorted({"tpr": case["pos"], "fnr": case["pos"], "tnr": case["neg"], "fpr": case["neg"]}.get(case["metric"], case["pos"] + case["neg"]))
        ok_vals = set(arr) | {float(np.nextafter(arr[0], -np.inf)), float(np.nextafter(arr[-1], np.inf))}
        for nm, v in (("lower", tl), ("higher", th_)):
            if float(v) not in ok_vals:
                return f"method={nm!r} returned {v!r}, neither a sample score nor a sentinel {info}"
        if TH.counts_at(case, tl) > TH.counts_at(case, th_):
            return f"metric(lower)={TH.counts_at(case, tl)} > metric(higher)={TH.counts_at(case, th_)} (thresholds {tl!r}, {th_!r}) {info}"
        if not (min(tl, th_) <= tt <= max(tl, th_) or close(tt, tl) or close(tt, th_)):
            return f"linear threshold {tt!r} not between lower {tl!r} and higher {th_!r} {info}"
        phi = Kc - math.floor(Kc)
        if case.get("exact_grid") and phi == 0 and not (close(tt, tl) and close(tt, th_)):
            # r*N is an exact integer in floats too (power-of-two class size, no easy samples): weight 0, so all three methods agree
            return f"target exactly on the k/N grid (weight 0): linear {tt!r}, lower {tl!r}, higher {th_!r} do not coincide {info}"
        if case.get("offgrid", True) and phi != 0:
            want = float((1 - phi) * Fraction(float(tl)) + phi * Fraction(float(th_)))
            if not close(tt, want, 64):
                return f"linear threshold {tt!r} is not the convex combination (1-{float(phi)})*{tl!r} + {float(phi)}*{th_!r} = {want!r} {info}"
        return None
    if cl in ("monotone", "monotone-in-r"):
        r2 = case["r2"]
        a, b = f(min(r, r2)), f(max(r, r2))
        d = TH.metric_dir(case["metric"], case["sc"])
        if (d > 0 and a > b and not close(a, b)) or (d < 0 and a < b and not close(a, b)):
            return f"threshold not monotone in r: f({min(r, r2)!r})={a!r}, f({max(r, r2)!r})={b!r} {info}"
        return None
    raise ValueError(cl)


def replay(case):
    return oracle(case)


def eval_items(items):
    counts, viols = {}, []

    def cnt(cl):
        c = counts.setdefault(cl, [0, 0])
        c[0] += 1
        c[1] += 1
    for pos, neg, ep, en in items:
        for sc, ec in B.CONFIGS:
            for metric in TH.METRICS:
                base = {"pos": pos, "neg": neg, "ep": ep, "en": en, "sc": sc, "ec": ec, "metric": metric}
                if (pos and isinstance(pos[0], int)) or (neg and isinstance(neg[0], int)):
                    base["int"] = True
                n_rel, n_all, lo_c, hi_c = TH.pop_info(base)
                if n_rel == 0:
                    continue
                targets = [-0.25, 0.0, 1.0, 1.25] + [k / (2 * n_all) for k in range(1, 2 * n_all)] + [(4 * k + 1) / (4 * n_all) for k in range(n_all)]
                prev = None
                for r in sorted(set(targets)):
                    offgrid = (Fraction(r) * n_all).denominator != 1 and abs(r * n_all - round(r * n_all)) > 1e-6
                    exact_grid = (not offgrid) and ep == 0 and en == 0 and n_all in (1, 2, 4, 8) and float(r) * n_all == round(r * n_all)
                    for cl in ("bracket", "methods"):
                        if cl == "methods" and not offgrid and 0 < r < 1 and not exact_grid:
                            continue          # lower/higher are discontinuous exactly on the grid (float targets fall on either side)
                        case = dict(base, clause=cl, r=r, offgrid=offgrid, exact_grid=exact_grid)
                        res = oracle(case)
                        cnt(cl)
                        if res:
                            viols.append((cl, f"C02/{metric}/{cl}[{sc},{ec}]", res, B.jsonable(case)))
                    if prev is not None:
                        case = dict(base, clause="monotone", r=prev, r2=r)
                        res = oracle(case)
                        cnt("monotone")
                        if res:
                            viols.append(("monotone", f"C02/{metric}/monotone-in-r[{sc},{ec}]", res, B.jsonable(case)))
                    prev = r
    return counts, viols, []


def bounded(chk):
    from vf.framework import run_bounded
    maxn = 4 if chk.tier == "quick" else 5
    easy = [(0, 0), (2, 0), (1, 2)] if chk.tier == "quick" else [(0, 0), (1, 0), (0, 1), (2, 0), (0, 3), (1, 2), (3, 3)]
    shifts = [0.0, -10.0]
    chk.bounded["bound"] = (f"all order types of pos+neg <= {maxn} scores (values 1,2,.. and, up to 3 scores in the quick tier, the same shifted by -10), easy counts {easy}, "
                            "4 configurations, 6 metrics, targets on the k/N grid, quarter-grid, <0, 0, 1, >1; float tolerance 8 ulp (64 ulp for the convex combination)")
    chk.bounded["rule"] = "enumerated; non-trivial = relevant class non-empty"
    chk.bounded["exhaustive"] = True
    items = []
    for pos0, neg0 in B.order_types(maxn):
        for sh in shifts:
            if sh != 0.0 and chk.tier == "quick" and len(pos0) + len(neg0) > 3:
                continue
            for ep, en in easy:
                items.append(([v + sh for v in pos0], [v + sh for v in neg0], ep, en))
            if len(pos0) + len(neg0) <= 3:
                # integer-dtype scores: lower / higher must still be sample scores or float sentinels one ulp outside the range
                items.append(([int(3 * v + sh) for v in pos0], [int(3 * v + sh) for v in neg0], 0, 0))
    run_bounded(chk, items, eval_items)
    chk.samples.append({"bounded-case": {"pos": [1.0, 2.0], "neg": [2.0, 3.0], "easy": [1, 2], "config": ["neg", "pos"], "metric": "tonr", "r": 0.375, "clauses": ["bracket", "methods", "monotone"]}})
    # aliases at run time
    s = TH.real_scores({"pos": [1.0, 2.0, 2.0, 5.0], "neg": [0.5, 2.0, 3.0], "ep": 2, "en": 1, "sc": "neg", "ec": "pos"})
    for al, tgt in TH.ALIASES.items():
        for method in TH.METHODS:
            for r in (0.0, 0.3, 0.5, 1.0):
                a = getattr(s, "threshold_at_" + al)(r, method=method)
                b = getattr(s, "threshold_at_" + tgt)(r, method=method)
                chk.count("alias", 1, 1)
                if a != b:
                    chk.violation("alias", f"C02/alias/threshold_at_{al}", f"threshold_at_{al}({r}, method={method!r}) = {a!r} != threshold_at_{tgt} = {b!r}", None, reproduced=True)


def crosscheck(chk):
    """engine vs CPython on concrete inputs (DESIGN 7.2): every threshold_at_* x method; targets off the k/N grid (on the grid the
    float product r*N may round to the integer that the exact product misses) plus the special cases r <= 0, r >= 1"""
    from vf.crosscheck import run_crosscheck
    data = [([1.0, 2.0], [1.0, 3.0]), ([1.0, 2.0, 2.0, 4.0], [0.5, 2.0]), ([3.0], [1.0, 2.0, 5.0, 6.0])]
    cases = []
    for pos, neg in data[: (2 if chk.tier == "quick" else 3)]:
        for sc, ec in B.CONFIGS:
            for ep, en in ((0, 0), (2, 1)):
                for r in (0.137, 0.611, 0.873, -0.5, 0.0, 1.0) + ((0.389, 1.5) if chk.tier == "thorough" else ()):
                    cases.append({"pos": pos, "neg": neg, "ep": ep, "en": en, "sc": sc, "ec": ec, "args": [r]})
    run_crosscheck(chk, [("threshold_at_" + m, {"method": me}, cases, 1e-9) for m in TH.METRICS for me in TH.METHODS])


def run(chk):
    prove(chk, build, ground_sizes=[(1, 1, 0, 0), (2, 1, 0, 0), (1, 2, 0, 0), (2, 2, 1, 1), (3, 1, 0, 0), (1, 3, 0, 0), (2, 1, 2, 0), (1, 2, 0, 3)], replay=replay, parts=PARTS)
    bounded(chk)
    crosscheck(chk)
