"""C18 -- showbias reports per group the metric of exactly that group's rows, on one scale.

  normalisation  _apply_normalization executed symbolically on a (groups x thresholds) array: by_overall divides each entry by the
                 whole-dataset metric, by_min by the minimum over the *groups* (attained, <= every entry: the smallest row is 1) unless
                 the divisor is 0 (then the entry is returned unchanged); unknown modes raise ValueError
  call sites     (structural) showbias calls _apply_normalization on the point estimates (groups on axis 0) and on the bootstrap
                 replicates; the replicate array has the groups on axis 1 -- the by_min reduction over axis 0 is then over replicates
                 (KNOWN FINDING, see known_findings.json); the estimate handed to the CI formula is the reported (normalised) array
  group keys     several group columns are joined with '_' and split again: for parts without '_' split(join(parts)) = parts (string
                 theory, z3/cvc5); for arbitrary strings join is not injective (KNOWN FINDING)
  group metric   per-group entries come from getattr(sample.group_cm(**kwargs), metric)() (C12's group_cm contract); overall from cm()
pandas assembly, labels, all metric names, bootstrap intervals: bounded layer on small frames.
"""
import ast
import os

import numpy as np
from z3 import And, BoolVal, Concat, Contains, ForAll, Function, If, Implies, IndexOf, Int, IntSort, Length, Not, Or, Real, RealSort, String, StringVal, SubString

from vf import bounded as B
from vf import prims as P
from vf.common import multi_path_meta, new_exec, run_function
from vf.engine import Axis, Obj, Oblig, Path, T, same_size, toB, toI, toR
from vf.proof import prove

LEVEL = "other"


def build(sizes=None, only=None, part=None):
    obs = []
    if sizes is not None:
        return obs
    for fn in (build_normalization, build_call_sites, build_keys, build_resamples):
        try:
            obs += fn()
        except Exception as e:
            if os.environ.get("VERIF_DEBUG"):
                import traceback
                traceback.print_exc()
            obs.append(Oblig(f"C18/{fn.__name__[6:]}/executes", [], BoolVal(False), "post", ("C18",), {"engine_error": f"{type(e).__name__}: {e}"}))
    return obs


def build_normalization():
    obs = []
    for mode in ("by_overall", "by_min", "bogus"):
        ex = new_exec()
        path = Path()
        G, Tn = Axis("G", Int("nb_groups")), Axis("T", Int("nb_thresholds"))
        path.add(And(toI(G.size) >= 1, toI(Tn.size) >= 1))
        GM = Function("group_metric", IntSort(), IntSort(), RealSort())
        OV = Function("overall_metric", IntSort(), RealSort())
        gm = T((G, Tn), lambda g, t: GM(toI(g), toI(t)), prov="param:group_metrics")
        calls = []

        def metric(ex_, p_, obj, **kw):
            calls.append((obj, kw))
            return T((Tn,), lambda t: OV(toI(t)), prov="fresh")
        so = Obj("GroupScores", marker=True)
        kwv = Real("thr")
        outs = run_function(ex, "showbias", "_apply_normalization", [gm, so, ("pyfunc", metric), mode], {"threshold": kwv}, path=path)
        tag = f"[{mode}]"
        if mode == "bogus":
            obs.append(Oblig(f"C18/normalization/unknown-mode-raises-ValueError{tag}", [], BoolVal(bool(outs) and all(o.raised and "ValueError" in str(o.value.exc) for o in outs)), "post", ("C18",)))
            continue
        ok = len(outs) == 1 and not outs[0].raised and isinstance(outs[0].value, T) and outs[0].value.ndim == 2
        obs.append(Oblig(f"C18/normalization/returns-(G,T)-array{tag}", [], BoolVal(bool(ok)), "shape", ("C18",), multi_path_meta(outs)))
        if not ok:
            continue
        r, hy = outs[0].value, outs[0].path.pc
        g, t, g2 = Int("g"), Int("t"), Int("g2")
        rng_ = [0 <= g, g < toI(G.size), 0 <= t, t < toI(Tn.size), 0 <= g2, g2 < toI(G.size)]
        v = toR(r.elem(g, t))
        if mode == "by_overall":
            obs.append(Oblig(f"C18/normalization/overall-metric-of-the-same-object-with-the-same-kwargs{tag}", [], BoolVal(len(calls) == 1 and calls[0][0] is so and calls[0][1] == {"threshold": kwv}), "structural", ("C18",)))
            den = OV(t)
            obs.append(Oblig(f"C18/normalization/entry-divided-by-the-overall-metric{tag}", hy + rng_, And(Implies(den != 0, v * den == GM(g, t)), Implies(den == 0, v == GM(g, t))), "post", ("C18",)))
        else:
            # divisor = minimum over the groups (spec side: any lower bound that is attained), from the np.min contract in hy
            red = None
            for e_ in outs[0].env.values():
                if isinstance(e_, T) and getattr(e_, "reduce_of", None) is not None:
                    red = e_
            if red is None:
                obs.append(Oblig(f"C18/normalization/divisor-is-a-minimum-over-an-axis{tag}", [], BoolVal(False), "post", ("C18",), {"engine_error": "reduction not found"}))
                continue
            x_, ax, R, W = red.reduce_of
            obs.append(Oblig(f"C18/normalization/minimum-is-taken-over-the-group-axis{tag}", [], BoolVal(x_ is gm and ax == 0), "structural", ("C18",)))
            den = R(t)
            obs.append(Oblig(f"C18/normalization/divisor-is-the-smallest-group-value{tag}", hy + rng_, And(den <= GM(g2, t), 0 <= W(t), W(t) < toI(G.size), den == GM(W(t), t)), "post", ("C18",)))
            obs.append(Oblig(f"C18/normalization/entry-divided-by-the-smallest-group-value{tag}", hy + rng_, And(Implies(den != 0, v * den == GM(g, t)), Implies(den == 0, v == GM(g, t))), "post", ("C18",)))
            obs.append(Oblig(f"C18/normalization/smallest-row-is-1{tag}", hy + rng_, Implies(den != 0, toR(r.elem(W(t), t)) == 1), "post", ("C18",)))
        for s_ in ex.obligs:
            s_.id = f"C18/normalization/safety:{s_.id}#{len(obs)}{tag}"
            s_.props = ("C18",)
            obs.append(s_)
    return obs


def build_call_sites():
    """structural dataflow of showbias (its pandas parts are outside the engine): which arrays reach _apply_normalization and the
    CI formula"""
    obs = []
    ex = new_exec()
    fn = ex.funcs[("showbias", "showbias")]

    def syn(name, cond, meta=None):
        # syntactic dataflow patterns: a mismatch means "pattern not recognised" (undecided; the bounded layer decides), never a violation
        m = dict(meta or {})
        if not cond:
            m["engine_error"] = "dataflow pattern not recognised in the current source"
        obs.append(Oblig(name, [], BoolVal(bool(cond)), "structural", ("C18",), m))
    calls = [n for n in ast.walk(fn) if isinstance(n, ast.Call) and isinstance(n.func, ast.Name) and n.func.id == "_apply_normalization"]
    syn("C18/call_sites/normalisation-applied-to-values-and-to-replicates", len(calls) == 2, {"calls": len(calls)})
    # which variable is normalised: `group_metrics` (G,T) resp. `samples` (B,G,T) produced by bootstrap_metric (row = replicate)
    args = [ast.unparse(c.args[0]) if c.args else "" for c in calls]
    syn("C18/call_sites/point-estimates-normalised-with-groups-on-axis-0", "group_metrics" in args)
    rep = [c for c in calls if c.args and ast.unparse(c.args[0]) == "samples"]
    # the replicate array comes from bootstrap_metric: axis 0 = replicates, axis 1 = groups; _apply_normalization's by_min reduces axis 0
    norm_fn = ex.funcs[("showbias", "_apply_normalization")]
    axis0 = any(isinstance(n, ast.Call) and ast.unparse(n.func) == "np.min" and any(k.arg == "axis" and ast.unparse(k.value) == "0" for k in n.keywords) for n in ast.walk(norm_fn))
    obs.append(Oblig("C18/call_sites/replicates-normalised-along-the-group-axis", [], BoolVal(not (rep and axis0)), "structural", ("C18",),
                     {"key": "C18/bounded/by_min-bootstrap", "detail": "samples has shape (replicates, groups, thresholds) but the by_min reduction is over axis 0"}))
    ci = [n for n in ast.walk(fn) if isinstance(n, ast.Call) and isinstance(n.func, ast.Name) and n.func.id == "get_bootstrap_ci"]
    okhat = len(ci) == 1 and any(k.arg == "theta_hat" and ast.unparse(k.value) == "group_metrics" for k in ci[0].keywords) and \
        any(k.arg == "theta" and ast.unparse(k.value) == "samples" for k in ci[0].keywords)
    syn("C18/call_sites/CI-estimate-is-the-reported-(normalised)-array", okhat)
    vals = [n for n in ast.walk(fn) if isinstance(n, ast.Call) and ast.unparse(n.func) == "pd.DataFrame" and n.args and "group_metrics" in ast.unparse(n.args[0])]
    syn("C18/call_sites/values-frame-built-from-the-same-array-with-group-index-and-threshold-columns",
        len(vals) >= 1 and all(any(k.arg == "index" and ast.unparse(k.value) == "group_index" for k in v.keywords) for v in vals))
    # per-group metric comes from group_cm, overall from cm, of the object built by GroupScores.from_labels
    src = ast.unparse(fn)
    syn("C18/call_sites/group-entries-from-group_cm-and-overall-from-cm", "getattr(sample.group_cm(**kwargs), metric)()" in src and "getattr(sample.cm(**kwargs), metric)()" in src
        and "GroupScores.from_labels(" in src)
    # the row labels are derived from score_object.groups (the vocabulary that orders the rows of group_cm) and from nothing else
    gi = ex.funcs[("showbias", "_get_group_index")]
    loads = {n.id for n in ast.walk(gi) if isinstance(n, ast.Name) and isinstance(n.ctx, ast.Load)}
    stores = {n.id for n in ast.walk(gi) if isinstance(n, ast.Name) and isinstance(n.ctx, ast.Store)}
    params = {a.arg for a in gi.args.args}
    syn("C18/call_sites/row-labels-depend-only-on-the-group-vocabulary", loads - stores - {"pd", "np", "isinstance", "list", "zip", "tuple", "str", "Union", "List"} <= params and params == {"group_names", "group_columns"}
        and "group_names = score_object.groups" in src and "_get_group_index(group_names, group_columns)" in src, {"loads": sorted(loads)})
    return obs


def build_resamples():
    """the bootstrap replicates are computed on GroupScores.bootstrap_sample(): it must keep the decision rule and the group vocabulary
    (same rows / same order as the reported values) -- the obligations of C12's bootstrap proofs that carry this, for every stratification"""
    from props import c12
    obs = []
    for o in c12.build_bootstrap() + c12.build_bootstrap_by_group():
        if "group_names-and-flags-kept" in o.id or "returns-GroupScores" in o.id or "returns-without-raising" in o.id or "executes" in o.id \
                or "ascending(class-invariant)" in o.id or "safety:" in o.id:
            o.id = o.id.replace("C12/bootstrap/", "C18/resamples/")
            o.props = ("C18",)
            o.meta.pop("key", None)
            obs.append(o)
    return obs


def build_keys():
    obs = []
    p1, p2, p3 = String("part1"), String("part2"), String("part3")
    us = StringVal("_")
    nou = lambda s: Not(Contains(s, us))
    j2 = Concat(p1, us, p2)
    i1 = IndexOf(j2, us, 0)
    obs.append(Oblig("C18/keys/two-columns-split(join)-recovers-the-parts(no-underscore-in-values)", [nou(p1), nou(p2)],
                     And(i1 == Length(p1), SubString(j2, 0, i1) == p1, SubString(j2, i1 + 1, Length(j2) - i1 - 1) == p2, nou(SubString(j2, i1 + 1, Length(j2) - i1 - 1))), "lemma", ("C18",), {"theory": "strings"}))
    j3 = Concat(p1, us, p2, us, p3)
    a = IndexOf(j3, us, 0)
    b = IndexOf(j3, us, a + 1)
    obs.append(Oblig("C18/keys/three-columns-split(join)-recovers-the-parts(no-underscore-in-values)", [nou(p1), nou(p2), nou(p3)],
                     And(a == Length(p1), b == Length(p1) + 1 + Length(p2), SubString(j3, 0, a) == p1, SubString(j3, a + 1, b - a - 1) == p2, SubString(j3, b + 1, Length(j3) - b - 1) == p3), "lemma", ("C18",), {"theory": "strings"}))
    q1, q2 = String("other1"), String("other2")
    obs.append(Oblig("C18/keys/join-is-injective-on-all-string-tuples", [], Implies(Concat(p1, us, p2) == Concat(q1, us, q2), And(p1 == q1, p2 == q2)), "lemma", ("C18",),
                     {"key": "C18/bounded/underscore-in-group-values", "theory": "strings"}))
    return obs


# ----------------------------------------------------------------------------------------------------------------
METRICS = ["tpr", "fnr", "tnr", "fpr", "ppv", "npv", "topr", "tonr", "accuracy", "fdr", "for_", "error_rate", "tar", "frr", "trr", "far", "acceptance_rate", "rejection_rate"]


def oracle(case):
    from vf.framework import real_repo
    real_repo()
    import pandas as pd
    import warnings
    from score_analysis import BootstrapConfig, ConfusionMatrix, Scores
    from score_analysis.showbias import showbias
    rng = np.random.RandomState(case["seed"])
    n = case["n"]
    gvals = case["gvals"]
    ncol = case["ncol"]
    cols = {f"g{k}": [gvals[k][i % len(gvals[k])] if i < len(gvals[k]) * 2 else rng.choice(gvals[k]) for i in range(n)] for k in range(ncol)}
    df = pd.DataFrame(cols)
    df["score"] = rng.choice([0.1, 0.3, 0.5, 0.7, 0.9], size=n) if case.get("ties") else rng.rand(n)
    if case.get("int_scores"):
        df["score"] = rng.randint(0, 11, size=n)          # integer ratings; thresholds may be fractional
    if case.get("degenerate"):
        df["score"] = float(case["threshold"])      # every score ties with the threshold: the metric is decided by equal_class alone
    df["label"] = rng.choice(case.get("labels", [0, 1]), size=n)
    thr = case["threshold"]
    thr_list = [thr] if np.isscalar(thr) else list(thr)
    gcols = "g0" if (ncol == 1 and case.get("single_str", True)) else [f"g{k}" for k in range(ncol)]
    metric, norm, sc, ec, pl = case["metric"], case["normalize"], case["sc"], case["ec"], case.get("pos_label", 1)
    info = f"[{case}]"
    boot = case.get("boot")
    kw = {}
    if boot:
        kw = dict(bootstrap_ci=True, alpha=0.1, bootstrap_config=BootstrapConfig(nb_samples=12, bootstrap_method=boot, sampling_method=case.get("sampler", "replacement"), stratified_sampling=case.get("strat")))
    np.random.seed(case["seed"] + 3)
    with warnings.catch_warnings(), np.errstate(all="ignore"):
        warnings.simplefilter("ignore")
        bf = showbias(df, gcols, "label", "score", metric, normalize=norm, threshold=thr, pos_label=pl, score_class=sc, equal_class=ec, **kw)
    vals = bf.values
    keycols = [f"g{k}" for k in range(ncol)]
    groups = sorted(set(map(tuple, df[keycols].values.tolist())))
    if list(vals.columns) != thr_list:
        return f"columns {list(vals.columns)} are not the thresholds {thr_list} {info}"
    idx = [ix if isinstance(ix, tuple) else (ix,) for ix in vals.index.tolist()]
    if sorted(idx) != groups:
        return f"row labels {idx} are not the group values {groups} {info}"

    def metric_of(sub, t):
        pos = sub["score"][sub["label"] == pl].values
        neg = sub["score"][sub["label"] != pl].values
        m = np.array(B.cm_oracle(list(pos), list(neg), 0, 0, sc, ec, t))
        with np.errstate(all="ignore"):
            return getattr(ConfusionMatrix(matrix=m, binary=True), metric)()
    exp = np.array([[metric_of(df[(df[keycols] == pd.Series(g, index=keycols)).all(axis=1)], t) for t in thr_list] for g in idx], dtype=float)
    with np.errstate(all="ignore"):
        if norm == "by_overall":
            ov = np.array([metric_of(df, t) for t in thr_list], dtype=float)
            exp = np.where(ov != 0, exp / np.where(ov != 0, ov, 1), exp)
        elif norm == "by_min":
            mn = exp.min(axis=0)
            exp = np.where(mn != 0, exp / np.where(mn != 0, mn, 1), exp)
    got = np.asarray(vals.values, dtype=float)
    if got.shape != exp.shape or not np.allclose(got, exp, rtol=0, atol=1e-12, equal_nan=True):
        return f"values {got.tolist()} differ from the metric computed directly from each group's rows {exp.tolist()} {info}"
    if boot:
        lo, up = np.asarray(bf.lower.values, dtype=float), np.asarray(bf.upper.values, dtype=float)
        if lo.shape != got.shape or up.shape != got.shape or list(bf.lower.index) != list(vals.index) or list(bf.upper.columns) != list(vals.columns):
            return f"bootstrap frames have other shape/labels than the values {info}"
        if np.any(lo > up + 1e-12):
            return f"bootstrap interval lower > upper {info}"
        if norm == "by_min":
            bad = np.isnan(lo) & ~np.isnan(got) | ((lo > got + 1e-9) & (boot == "quantile") & False)
            if np.any(np.isnan(lo) & ~np.isnan(got) & (np.nanmin(exp, axis=0) != 0)):
                return f"by_min-bootstrap: interval is NaN although the reported normalised value is finite (the replicates are not normalised by the per-replicate minimum over groups) {info}"
        # the replicates come from GroupScores.bootstrap_sample with this configuration: each resample must be a well-formed object
        # (ascending scores, labels attached) or its group-wise metrics are not metrics of any data
        from score_analysis import GroupScores
        gkey = df[keycols].astype(str).agg("_".join, axis=1).values if ncol > 1 else df[keycols[0]].values
        gs = GroupScores.from_labels(df["label"].values, df["score"].values, gkey, pos_label=pl, score_class=sc, equal_class=ec)
        np.random.seed(case["seed"] + 11)
        for _ in range(4):
            b_ = gs.bootstrap_sample(kw["bootstrap_config"])
            if np.any(np.diff(b_.pos) < 0) or np.any(np.diff(b_.neg) < 0):
                return f"a bootstrap resample used for the intervals has unsorted scores (its metrics do not equal direct counting) {info}"
        if case.get("degenerate") and boot == "quantile" and norm is None:
            # every resample of all-tied data has the same metric as the data wherever it is defined: a degenerate interval at the value
            fin = np.isfinite(lo) & np.isfinite(got)
            if np.any(np.abs(lo - got)[fin] > 1e-12) or np.any(np.abs(up - got)[fin] > 1e-12):
                return f"bootstrap interval [{lo.tolist()}, {up.tolist()}] of all-tied data is not the reported value {got.tolist()}: the replicates use another decision rule or other rows {info}"
    return None


def replay(case):
    return oracle(case)


def eval_items(items):
    counts, viols = {"showbias": [0, 0]}, []
    for case in items:
        try:
            res = oracle(case)
        except Exception as e:
            res = f"showbias raised {type(e).__name__}: {e} for {case}"
        counts["showbias"][0] += 1
        counts["showbias"][1] += 1
        if res:
            under = any("_" in v for col in case["gvals"] for v in col) and case["ncol"] > 1
            if res.startswith("by_min-bootstrap") or (case["normalize"] == "by_min" and case.get("boot") and ("NaN" in res or "lower > upper" in res or "Quantiles must be in the range" in res)):
                key = "C18/bounded/by_min-bootstrap"
            elif under:
                key = "C18/bounded/underscore-in-group-values"
            else:
                key = f"C18/bounded/{' '.join(res.split(' ')[:3])[:40]}"
            viols.append(("showbias", key, res, B.jsonable(case)))
    return counts, viols, []


def bounded(chk):
    from vf.framework import run_bounded
    items = []
    plain = [["a", "b"], ["x", "y", "z"], ["u"]]
    for seed in range(3 if chk.tier == "quick" else 10):
        for metric in (METRICS if seed == 0 else ["fnr", "tpr", "ppv", "accuracy"]):
            for norm in (None, "by_overall", "by_min"):
                for thr in (0.5, [0.3, 0.5, 0.7]):
                    for sc, ec in (("pos", "pos"), ("neg", "neg")):
                        base = {"n": 12 + 3 * seed, "metric": metric, "normalize": norm, "threshold": thr, "sc": sc, "ec": ec, "seed": chk.seed * 100 + seed, "ties": seed % 2 == 1}
                        items.append(dict(base, ncol=1, gvals=[["a", "b", "c"]]))
                        if metric in ("fnr", "ppv"):
                            items.append(dict(base, ncol=2, gvals=[["a", "b"], ["x", "y", "z"]]))
                            items.append(dict(base, ncol=3, gvals=plain))
                            items.append(dict(base, ncol=1, gvals=[["a_b", "_", "c d"]]))
                            items.append(dict(base, ncol=1, gvals=[["only"]], single_str=False))
        for boot in ("quantile", "bc", "bca"):
            for norm in (None, "by_overall", "by_min"):
                for thr in (0.5, [0.3, 0.6]):
                    base = {"n": 30, "metric": "fnr", "normalize": norm, "threshold": thr, "sc": "pos", "ec": "pos", "seed": chk.seed * 100 + seed, "boot": boot}
                    items.append(dict(base, ncol=1, gvals=[["a", "b"]]))
                    items.append(dict(base, ncol=2, gvals=[["a", "b"], ["x", "y"]], strat="by_group"))
                    items.append(dict(base, ncol=1, gvals=[["solo"]]))
        for strat in (None, "by_label", "by_group"):
            for sampler in ("replacement", "single_pass", "dynamic"):
                for sc, ec in (("pos", "neg"), ("neg", "pos"), ("pos", "pos")):
                    for metric in ("fnr", "fpr"):
                        items.append({"n": 24, "metric": metric, "normalize": None, "threshold": 0.5, "sc": sc, "ec": ec, "seed": chk.seed * 100 + seed, "boot": "quantile", "strat": strat,
                                      "sampler": sampler, "degenerate": True, "ncol": 1, "gvals": [["a", "b"]]})
        # one value a prefix of another, next character sorting before / after the join character (row order of the labels)
        for gv in ([["a", "a1", "A"], ["x", "Y"]], [["b", "b-", "b~"], ["0", "z"]], [["1", "10", "1a"], ["p", "q"], ["r", "s"]]):
            for norm in (None, "by_min"):
                items.append({"n": 40, "metric": "fnr", "normalize": norm, "threshold": [0.4, 0.6], "sc": "pos", "ec": "pos", "seed": chk.seed * 100 + seed, "ncol": len(gv), "gvals": gv})
        for thr in (2.5, [2.5, 7.25]):
            for sc, ec in (("pos", "pos"), ("neg", "pos")):
                items.append({"n": 24, "metric": "fnr", "normalize": None, "threshold": thr, "sc": sc, "ec": ec, "seed": chk.seed * 100 + seed, "ncol": 1, "gvals": [["a", "b"]], "int_scores": True})
        # values containing the join character, several group columns (known finding)
        items.append({"n": 16, "metric": "fnr", "normalize": None, "threshold": 0.5, "sc": "pos", "ec": "pos", "seed": chk.seed * 100 + seed, "ncol": 2, "gvals": [["a_b", "a"], ["c", "b_c"]]})
    chk.bounded["bound"] = "frames with 12..30 rows, 1..3 group columns (values incl. 'a_b', '_', 'c d', a single group), all ConfusionMatrix metric names, thresholds scalar / list, normalize None / by_overall / by_min, 2 configurations, bootstrap off / quantile / bc / bca (incl. by_group stratification); every entry recomputed directly from the group's rows"
    chk.bounded["rule"] = "seeded grid"
    run_bounded(chk, items, eval_items)
    chk.samples.append({"bounded-case": items[11]})


def run(chk):
    prove(chk, build, replay=replay)
    bounded(chk)
    chk.extra["explanation"] = ("proved: the normalisation function (by_overall / by_min incl. the divisor-0 rule and 'smallest row is 1'), the key round trip for values without the join character "
                                "(string theory), structural dataflow of showbias (which arrays reach the normalisation and the CI formula). Bounded: every entry, label and interval on small frames "
                                "through real pandas. Two known findings are listed in known_findings.json (by_min with bootstrap; '_' in group values with several group columns).")
