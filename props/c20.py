"""C20 -- synthetic datasets hit their specified operating points and proportions.

NormalDataset / BernoulliDataset / CorrelatedBernoullilDataset are executed symbolically; scipy.stats.norm is uninterpreted with
the axioms  Phi(PhiInv(u)) = u for 0<u<1,  PhiInv(Phi(z)) = z  (assumed contract of the library):
  inverse     fnr(threshold_at_fnr(r)) = r, threshold_at_fnr(fnr(t)) = t, likewise for fpr (needs only (sigma*u)/sigma = u, sigma > 0)
  roc         roc() returns the cdf / sf of exactly the thresholds it returns; exactly one of fnr / fpr must be given
  from_metrics  FNR(0) = fnr and FPR(0) = fpr of the constructed model; n = int(fnr_support/fnr) + int(fpr_support/fpr); p_pos = nb_pos/n
  sample      nb_pos in [0,n], sizes add up to n, the model's score direction is passed on (rng draws are range contracts)
  Bernoulli   non-random: floor(n*p) ones and n - floor(n*p) zeros (requires 0 <= p <= 1 for the count to be non-negative)
  correlated  the four joint probabilities sum to 1; ValueError iff one is negative; counts floor(n*p_i) with the remainder in the last
              cell (>= 0); both marginals within (-1, +3) draws of n*p1, n*p2; values in {0,1}; shape (2, n)
"""
import os

import numpy as np
from z3 import And, BoolVal, ForAll, If, Implies, Int, Not, Or, Real, ToInt, ToReal

from vf import bounded as B
from vf import prims as P
from vf.common import multi_path_meta, label, new_exec, run_function, run_method
from vf.engine import Obj, Oblig, Path, T, same_size, toB, toI, toR
from vf.proof import prove

LEVEL = "proof"


def norm_axioms(*us):
    out = []
    for u in us:
        out.append(Implies(And(u > 0, u < 1), P.Phi(P.PhiInv(u)) == u))
    return out


def build(sizes=None, only=None, part=None):
    obs = []
    if sizes is not None:
        return obs
    for fn in (build_normal, build_from_metrics, build_sample, build_bernoulli, build_correlated):
        try:
            obs += fn()
        except Exception as e:
            if os.environ.get("VERIF_DEBUG"):
                import traceback
                traceback.print_exc()
            obs.append(Oblig(f"C20/{fn.__name__[6:]}/executes", [], BoolVal(False), "post", ("C20",), {"engine_error": f"{type(e).__name__}: {e}"}))
    return obs


def mk_normal(ex, path, score_class="pos"):
    mp, mn, sp, sn = Real("mu_pos"), Real("mu_neg"), Real("sigma_pos"), Real("sigma_neg")
    path.add(And(sp > 0, sn > 0))
    return Obj("NormalDataset", mu_pos=mp, mu_neg=mn, sigma_pos=sp, sigma_neg=sn, p_pos=Real("p_pos"), n=Int("n_default"), score_class=score_class), (mp, mn, sp, sn)


def build_normal():
    obs = []
    ex = new_exec()
    path = Path()
    ds, (mp, mn, sp, sn) = mk_normal(ex, path)
    r, t = Real("r"), Real("t")
    path.add(And(r > 0, r < 1))
    z = Real("z!ax")
    inv2 = ForAll([z], P.PhiInv(P.Phi(z)) == z, patterns=[P.Phi(z)])
    call = lambda name, *a, **kw: single(run_method(ex, "NormalDataset", name, ds, list(a), kw, path=path.copy()))

    def single(outs):
        (o,) = outs
        return o.value, o.path
    for rate, sig in (("fnr", sp), ("fpr", sn)):
        th, p1 = call(f"threshold_at_{rate}", r)
        back, p2 = single(run_method(ex, "NormalDataset", rate, ds, [th], {}, path=p1))
        obs.append(Oblig(f"C20/normal/{rate}(threshold_at_{rate}(r))=r", p2.pc + norm_axioms(r, 1 - r), toR(back) == r, "post", ("C20",)))
        obs.append(Oblig(f"C20/normal/threshold_at_{rate}-of-scalar-is-plain-scalar", [], BoolVal(not isinstance(th, T) and not isinstance(back, T)), "shape", ("C20",)))
        v, p3 = call(rate, t)
        th2, p4 = single(run_method(ex, "NormalDataset", f"threshold_at_{rate}", ds, [v], {}, path=p3))
        obs.append(Oblig(f"C20/normal/threshold_at_{rate}({rate}(t))=t", p4.pc + [inv2, P.PhiInv(P.Phi((t - mp) / sp)) == (t - mp) / sp, P.PhiInv(P.Phi((t - mn) / sn)) == (t - mn) / sn,
                                                                      P.PhiInv(1 - (1 - P.Phi((t - mn) / sn))) == P.PhiInv(P.Phi((t - mn) / sn))], toR(th2) == t, "post", ("C20",)))
    # roc(): rates are the cdf / sf of its own thresholds
    x = P.mk_array(ex, path, "rates_arg", None, prov="param")
    k = ex.new_int("k")
    for given in ("fnr", "fpr"):
        (o,) = run_method(ex, "NormalDataset", "roc", ds, [], {given: x}, path=path.copy())
        c = o.value
        ok = isinstance(c, Obj) and c.cls == "ROCCurve" and all(isinstance(c.attrs.get(a), T) for a in ("fnr", "fpr", "thresholds"))
        obs.append(Oblig(f"C20/normal/roc({given})-returns-ROCCurve", [], BoolVal(bool(ok)), "shape", ("C20",)))
        if ok:
            th = toR(c.attrs["thresholds"].elem(k))
            obs.append(Oblig(f"C20/normal/roc({given})-rates-are-cdf/sf-of-the-returned-thresholds", o.path.pc + [0 <= k, k < toI(x.axes[0].size)],
                             And(toR(c.attrs["fnr"].elem(k)) == P.Phi((th - mp) / sp), toR(c.attrs["fpr"].elem(k)) == 1 - P.Phi((th - mn) / sn)), "post", ("C20",)))
    for kw, nm in (({}, "neither"), ({"fnr": x, "fpr": x}, "both")):
        outs = run_method(ex, "NormalDataset", "roc", ds, [], kw, path=path.copy())
        obs.append(Oblig(f"C20/normal/roc-with-{nm}-raises-ValueError", [], BoolVal(bool(outs) and all(o.raised and "ValueError" in str(o.value.exc) for o in outs)), "post", ("C20",)))
    return obs


def build_from_metrics():
    obs = []
    ex = new_exec()
    path = Path()
    fnr, fpr, s1, s2 = Real("fnr"), Real("fpr"), Real("sig1"), Real("sig2")
    ns, ps = Int("fnr_support"), Int("fpr_support")
    path.add(And(fnr > 0, fnr < 1, fpr > 0, fpr < 1, s1 > 0, s2 > 0, ns >= 1, ps >= 1))
    owner, fn = ex.find("NormalDataset", "from_metrics")
    ds = ex.call_node(owner, fn, [fnr, fpr, ns, ps], {"sigma_pos": s1, "sigma_neg": s2}, path)
    ok = isinstance(ds, Obj) and ds.cls == "NormalDataset"
    obs.append(Oblig("C20/from_metrics/returns-NormalDataset", [], BoolVal(bool(ok)), "shape", ("C20",)))
    if not ok:
        return obs
    (o1,) = run_method(ex, "NormalDataset", "fnr", ds, [0.0], {}, path=path.copy())
    (o2,) = run_method(ex, "NormalDataset", "fpr", ds, [0.0], {}, path=path.copy())
    obs.append(Oblig("C20/from_metrics/FNR(0)=requested-fnr", o1.path.pc + norm_axioms(fnr), toR(o1.value) == fnr, "post", ("C20",)))
    obs.append(Oblig("C20/from_metrics/FPR(0)=requested-fpr", o2.path.pc + norm_axioms(1 - fpr), toR(o2.value) == fpr, "post", ("C20",)))
    tr = lambda v: If(v >= 0, ToInt(v), -ToInt(-v))
    nb_pos, nb_neg = tr(ToReal(ns) / fnr), tr(ToReal(ps) / fpr)
    obs.append(Oblig("C20/from_metrics/n=int(fnr_support/fnr)+int(fpr_support/fpr)", path.pc, toI(ds.attrs["n"]) == nb_pos + nb_neg, "post", ("C20",)))
    obs.append(Oblig("C20/from_metrics/p_pos=nb_pos/n", path.pc, toR(ds.attrs["p_pos"]) * ToReal(nb_pos + nb_neg) == ToReal(nb_pos), "post", ("C20",)))
    obs.append(Oblig("C20/from_metrics/sigmas-and-direction", path.pc, And(toR(ds.attrs["sigma_pos"]) == s1, toR(ds.attrs["sigma_neg"]) == s2, BoolVal(ds.attrs["score_class"] == "pos")), "post", ("C20",)))
    return obs


def build_sample():
    obs = []
    for sc in ("pos", "neg"):
        ex = new_exec()
        path = Path()
        ds, _ = mk_normal(ex, path, sc)
        n = Int("n")
        path.add(n >= 1)
        seen = {}

        def c_new(ex_, p_, **kw):
            seen.update(kw)
            return Obj("Scores", marker=True)
        ex.contracts[("Scores", "__new__")] = c_new
        outs = run_method(ex, "NormalDataset", "sample", ds, [n], {"rng": Obj("Generator")}, path=path)
        ok = len(outs) == 1 and not outs[0].raised and isinstance(seen.get("pos"), T) and isinstance(seen.get("neg"), T)
        obs.append(Oblig(f"C20/sample/returns-Scores-built-from-two-arrays[{sc}]", [], BoolVal(bool(ok)), "shape", ("C20",), multi_path_meta(outs)))
        if ok:
            lp, ln = toI(seen["pos"].axes[0].size), toI(seen["neg"].axes[0].size)
            obs.append(Oblig(f"C20/sample/sizes-add-up-to-n-and-nb_pos-in-[0,n][{sc}]", outs[0].path.pc, And(lp + ln == n, lp >= 0, ln >= 0), "post", ("C20",)))
            obs.append(Oblig(f"C20/sample/score-direction-passed-on[{sc}]", [], BoolVal(seen.get("score_class") == sc), "post", ("C20",)))
        for s_ in ex.obligs:
            s_.id = f"C20/sample/safety:{s_.id}[{sc}]"
            s_.props = ("C20",)
            obs.append(s_)
    return obs


def build_bernoulli():
    obs = []
    ex = new_exec()
    path = Path()
    p, n = Real("p"), Int("n")
    path.add(And(p >= 0, p <= 1, n >= 1))
    ds = Obj("BernoulliDataset", p=p, n=None)
    outs = run_method(ex, "BernoulliDataset", "sample", ds, [n], {"random": False, "rng": Obj("Generator")}, path=path)
    ok = len(outs) == 1 and not outs[0].raised and isinstance(outs[0].value, T) and getattr(outs[0].value, "repeat_parts", None) is not None
    obs.append(Oblig("C20/bernoulli/non-random-sample-is-a-block-array", [], BoolVal(bool(ok)), "shape", ("C20",), multi_path_meta(outs)))
    if ok:
        data, hy = outs[0].value, outs[0].path.pc
        parts = data.repeat_parts
        ones = sum([r for v, r in parts if v == 1], IntVal0())
        zeros = sum([r for v, r in parts if v == 0], IntVal0())
        obs.append(Oblig("C20/bernoulli/values-are-0-and-1", [], BoolVal(all(v in (0, 1) for v, _ in parts)), "post", ("C20",)))
        obs.append(Oblig("C20/bernoulli/ones=floor(n*p)", hy, ones == ToInt(ToReal(n) * p), "post", ("C20",)))
        obs.append(Oblig("C20/bernoulli/n-draws", hy, And(ones + zeros == n, toI(data.axes[0].size) == n), "post", ("C20",)))
        obs.append(Oblig("C20/bernoulli/shuffled-in-place-by-the-given-rng", [], BoolVal(any(x is data for x in getattr(ex, "shuffled", []))), "structural", ("C20",)))
    for s_ in ex.obligs:
        s_.id = f"C20/bernoulli/safety:{s_.id}"
        s_.props = ("C20",)
        obs.append(s_)
    # n missing -> ValueError
    ex2 = new_exec()
    outs2 = run_method(ex2, "BernoulliDataset", "sample", Obj("BernoulliDataset", p=p, n=None), [None], {"random": False, "rng": Obj("Generator")}, path=Path())
    obs.append(Oblig("C20/bernoulli/missing-n-raises-ValueError", [], BoolVal(bool(outs2) and all(o.raised and "ValueError" in str(o.value.exc) for o in outs2)), "post", ("C20",)))
    return obs


def IntVal0():
    from z3 import IntVal
    return IntVal(0)


def build_correlated():
    obs = []
    ex = new_exec()
    path = Path()
    p1, p2, rho, n = Real("p1"), Real("p2"), Real("rho"), Int("n")
    path.add(And(p1 >= 0, p1 <= 1, p2 >= 0, p2 <= 1, n >= 1))
    sq = P.UF("sqrt", __import__("z3").RealSort(), __import__("z3").RealSort())
    ds = Obj("CorrelatedBernoullilDataset", p1=p1, p2=p2, rho=rho, n=None)
    outs = run_method(ex, "CorrelatedBernoullilDataset", "sample", ds, [n], {"random": False, "rng": Obj("Generator")}, path=path)
    live = [o for o in outs if not o.raised]
    err = [o for o in outs if o.raised]
    obs.append(Oblig("C20/correlated/one-normal-and-one-raising-path", [], BoolVal(len(live) == 1 and len(err) >= 1), "post", ("C20",), dict({"paths": len(outs)}, **multi_path_meta(outs))))
    c = (1 - p1) * (1 - p2)
    a = c + rho * sq(p1 * p2 * c)
    probs = [a, 1 - p2 - a, 1 - p1 - a, p1 + p2 + a - 1]
    obs.append(Oblig("C20/correlated/lemma-joint-probabilities-sum-to-one", [], sum(probs[1:], probs[0]) == 1, "lemma", ("C20",)))
    anyneg = Or(*[q < 0 for q in probs])
    for k_, o in enumerate(err):
        obs.append(Oblig(f"C20/correlated/raises-ValueError-only-when-a-probability-is-negative/path{k_}", o.path.pc, And(BoolVal("ValueError" in str(o.value.exc)), anyneg), "post", ("C20",)))
    for o in live:
        data, hy = o.value, o.path.pc
        obs.append(Oblig("C20/correlated/accepted-only-when-all-probabilities-are-non-negative", hy, Not(anyneg), "post", ("C20",)))
        ok = isinstance(data, T) and data.ndim == 2 and data.axes[0].size == 2 and same_size(data.axes[1].size, n)
        obs.append(Oblig("C20/correlated/shape-(2,n)", hy, BoolVal(bool(isinstance(data, T) and data.ndim == 2 and data.axes[0].size == 2)) if not ok else BoolVal(True), "shape", ("C20",)))
        joint = o.env.get("joint")
        nb = o.env.get("nb")
        if not (isinstance(joint, T) and getattr(joint, "repeat_parts", None) and isinstance(nb, T)):
            obs.append(Oblig("C20/correlated/cells-witness", [], BoolVal(False), "post", ("C20",), {"engine_error": "joint/nb not found"}))
            continue
        cells = [toI(r) for _, r in joint.repeat_parts]
        fl = [ToInt(ToReal(n) * q) for q in probs]
        obs.append(Oblig("C20/correlated/first-three-cells-are-floor(n*p_i)", hy, And(*[cells[i] == fl[i] for i in range(3)]), "post", ("C20",)))
        obs.append(Oblig("C20/correlated/remainder-in-the-last-cell-and-n-draws", hy, And(cells[3] == n - cells[0] - cells[1] - cells[2], toI(joint.axes[0].size) == n), "post", ("C20",)))
        hyp = hy + [sum(probs[1:], probs[0]) == 1]
        obs.append(Oblig("C20/correlated/remainder-cell-non-negative", hyp, cells[3] >= 0, "post", ("C20",)))
        # marginals: variable 1 is joint % 2 (cells 1 and 3), variable 2 is joint // 2 (cells 2 and 3)
        m1, m2 = cells[1] + cells[3], cells[2] + cells[3]
        for nm, m_, target in (("first", m1, p1), ("second", m2, p2)):
            obs.append(Oblig(f"C20/correlated/{nm}-marginal-within-(-1,+3)-draws", hyp, And(ToReal(m_) > ToReal(n) * target - 1, ToReal(m_) < ToReal(n) * target + 3), "post", ("C20",)))
        kk = ex.new_int("k")
        if ok:
            v0, v1 = toI(data.elem(0, kk)), toI(data.elem(1, kk))
            jk = toI(joint.elem(kk))
            obs.append(Oblig("C20/correlated/rows-are-joint%2-and-joint//2-with-values-in-{0,1}", hy + [0 <= kk, kk < n, toI(joint.axes[0].size) == n],
                             And(v0 == jk % 2, v1 == jk / 2, Or(v0 == 0, v0 == 1), Or(v1 == 0, v1 == 1)), "post", ("C20",)))
    for s_ in ex.obligs:
        s_.id = f"C20/correlated/safety:{s_.id}#{len(obs)}"
        s_.props = ("C20",)
        obs.append(s_)
    return obs


# ----------------------------------------------------------------------------------------------------------------
def oracle(case):
    from vf.framework import real_repo
    real_repo()
    import scipy.stats as st
    from score_analysis.experimental.datasets import BernoulliDataset, CorrelatedBernoullilDataset, NormalDataset
    cl = case["clause"]
    info = f"[{case}]"
    if cl == "normal":
        ds = NormalDataset(mu_pos=case["mu_pos"], mu_neg=case["mu_neg"], sigma_pos=case["sp"], sigma_neg=case["sn"], score_class=case["sc"])
        r = np.array([0.001, 0.05, 0.3, 0.5, 0.9, 0.999])
        for rate in ("fnr", "fpr"):
            th = getattr(ds, "threshold_at_" + rate)(r)
            if not np.allclose(getattr(ds, rate)(th), r, rtol=1e-9, atol=1e-12):
                return f"{rate}(threshold_at_{rate}(r)) != r {info}"
            mu_, sg_ = (ds.mu_pos, ds.sigma_pos) if rate == "fnr" else (ds.mu_neg, ds.sigma_neg)
            t = np.array([mu_ - 2 * sg_, mu_ + 0.1 * sg_, mu_ + 1.5 * sg_])
            if not np.allclose(getattr(ds, "threshold_at_" + rate)(getattr(ds, rate)(t)), t, rtol=1e-7, atol=1e-7):
                return f"threshold_at_{rate}({rate}(t)) != t {info}"
            if not isinstance(getattr(ds, rate)(0.3), float) or not isinstance(getattr(ds, "threshold_at_" + rate)(0.3), float):
                return f"scalar in, non-scalar out for {rate} {info}"
            c = ds.roc(**{rate: r})
            if not (np.allclose(c.fnr, st.norm.cdf(c.thresholds, ds.mu_pos, ds.sigma_pos)) and np.allclose(c.fpr, st.norm.sf(c.thresholds, ds.mu_neg, ds.sigma_neg)) and np.allclose(getattr(c, rate), r)):
                return f"roc({rate}=...) rates inconsistent with its thresholds {info}"
        # far tails: the analytic rates and thresholds stay mutually inverse (relative accuracy)
        rt = np.array([1e-15, 1e-12, 1e-9])
        for rate in ("fnr", "fpr"):
            back = getattr(ds, rate)(getattr(ds, "threshold_at_" + rate)(rt))
            if not np.allclose(back, rt, rtol=1e-6, atol=0):
                return f"{rate}(threshold_at_{rate}(r)) = {np.asarray(back).tolist()} for tail rates r = {rt.tolist()} {info}"
        np_rng = np.random.default_rng(case["seed"])
        for pp_, want in ((0.0, 0), (1.0, case["n"])):
            s0 = ds.sample(case["n"], p_pos=pp_, rng=np_rng)
            if len(s0.pos) != want or len(s0.pos) + len(s0.neg) != case["n"]:
                return f"sample(n={case['n']}, p_pos={pp_}): {len(s0.pos)} positives and {len(s0.neg)} negatives {info}"
        s = ds.sample(case["n"], p_pos=0.3, rng=np_rng)
        if len(s.pos) + len(s.neg) != case["n"] or s.score_class.value != case["sc"]:
            return f"sample(): sizes {len(s.pos)}+{len(s.neg)} != n or direction lost {info}"
        return None
    if cl == "from_metrics":
        ds = NormalDataset.from_metrics(case["fnr"], case["fpr"], case["s1"], case["s2"], sigma_pos=case["sp"], sigma_neg=case["sn"])
        if abs(ds.fnr(0.0) - case["fnr"]) > 1e-12 or abs(ds.fpr(0.0) - case["fpr"]) > 1e-12:
            return f"from_metrics: FNR(0)={ds.fnr(0.0)!r}, FPR(0)={ds.fpr(0.0)!r} {info}"
        nbp, nbn = int(case["s1"] / case["fnr"]), int(case["s2"] / case["fpr"])
        if ds.n != nbp + nbn or abs(ds.p_pos - nbp / (nbp + nbn)) > 1e-15:
            return f"from_metrics: n={ds.n}, p_pos={ds.p_pos} expected {nbp + nbn}, {nbp / (nbp + nbn)} {info}"
        return None
    if cl == "bernoulli":
        n, p = case["n"], case["p"]
        d = BernoulliDataset(p=p, n=case.get("default_n")).sample(n, random=False, rng=np.random.default_rng(case["seed"]))
        if d.shape != (n,) or set(np.unique(d)) - {0, 1} or int(d.sum()) != int(np.floor(n * p)):
            return f"non-random Bernoulli sample: {int(d.sum())} ones in {d.shape} draws, expected floor(n*p)={int(np.floor(n * p))} in ({n},) {info}"
        return None
    if cl == "correlated":
        n, p1, p2, rho = case["n"], case["p1"], case["p2"], case["rho"]
        c = (1 - p1) * (1 - p2)
        a = c + rho * np.sqrt(p1 * p2 * c)
        probs = np.array([a, 1 - p2 - a, 1 - p1 - a, p1 + p2 + a - 1])
        ds = CorrelatedBernoullilDataset(p1=p1, p2=p2, rho=rho)
        try:
            d = ds.sample(n, random=False, rng=np.random.default_rng(case["seed"]))
            raised = False
        except ValueError:
            raised = True
        if raised != bool(np.any(probs < 0)):
            return f"correlated pair: ValueError {'raised' if raised else 'not raised'} although probabilities are {probs.tolist()} {info}"
        if raised:
            return None
        if d.shape != (2, n) or set(np.unique(d)) - {0, 1}:
            return f"correlated pair: shape {d.shape} / values {np.unique(d).tolist()} {info}"
        for row, target in ((0, p1), (1, p2)):
            m = int(d[row].sum())
            if not (n * target - 1 < m + 1e-9 and m < n * target + 3 + 1e-9):
                return f"correlated pair: marginal {row} has {m} ones, n*p={n * target} {info}"
        dr = ds.sample(n, random=True, rng=np.random.default_rng(case["seed"]))
        if dr.shape != (2, n) or set(np.unique(dr)) - {0, 1}:
            return f"correlated pair (random): shape {dr.shape} {info}"
        return None
    raise ValueError(cl)


def replay(case):
    return oracle(case)


def eval_items(items):
    counts, viols = {}, []
    for case in items:
        try:
            res = oracle(case)
        except Exception as e:
            res = f"raised {type(e).__name__}: {e} for {case}"
        c = counts.setdefault(case["clause"], [0, 0])
        c[0] += 1
        c[1] += 1
        if res:
            viols.append((case["clause"], f"C20/bounded/{case['clause']}:{' '.join(res.split(' ')[:3])[:40]}", res, B.jsonable(case)))
    return counts, viols, []


def bounded(chk):
    from vf.framework import run_bounded
    items = []
    for mu in (0.5, 2.0, -1.0):
        for sp, sn in ((1.0, 1.0), (3.75, 3.0), (0.2, 5.0)):
            for sc in ("pos", "neg"):
                items.append({"clause": "normal", "mu_pos": mu, "mu_neg": -mu * 0.7, "sp": sp, "sn": sn, "sc": sc, "n": 57, "seed": chk.seed})
    for fnr in (0.001, 0.05, 0.4):
        for fpr in (0.002, 0.1, 0.6):
            for sp, sn in ((1.0, 1.0), (2.0, 0.5)):
                items.append({"clause": "from_metrics", "fnr": fnr, "fpr": fpr, "s1": 7, "s2": 3, "sp": sp, "sn": sn})
    for n in (1, 2, 7, 10, 100, 333):
        for p in (0.0, 0.1, 0.25, 1 / 3, 0.5, 0.7, 0.99, 1.0):
            items.append({"clause": "bernoulli", "n": n, "p": p, "seed": chk.seed})
            items.append({"clause": "bernoulli", "n": n, "p": p, "seed": chk.seed, "default_n": 5})
            for p2 in (0.0, 0.2, 0.5, 0.9):
                for rho in (-0.5, 0.0, 0.3, 0.9):
                    items.append({"clause": "correlated", "n": n, "p1": p, "p2": p2, "rho": rho, "seed": chk.seed})
    chk.bounded["bound"] = "parameter grids: 18 normal models, 18 from_metrics targets, n in {1,2,7,10,100,333} x p in 8 values (x p2 x rho for the correlated pair, valid and invalid joint distributions)"
    chk.bounded["rule"] = "grid"
    run_bounded(chk, items, eval_items)
    chk.samples.append({"bounded-case": items[40]})


def run(chk):
    prove(chk, build, replay=replay)
    bounded(chk)
    chk.extra["assumptions"] = ["scipy.stats.norm is uninterpreted with the inverse-function axioms; 'to floating-point accuracy' (floor(n*p) uses the float product) is the statement's own caveat and is only seen by the bounded layer"]
